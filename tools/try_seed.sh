#!/bin/bash
# tools/try_seed.sh <patch.diff> <ID> [<ID>...]   apply a seeded change to /repo, run the quick checks, undo it
patch="$1"; shift
cd /repo || exit 2
if ! git diff --quiet; then echo "/repo has uncommitted changes"; exit 2; fi
git apply "$patch" || { echo "patch does not apply"; exit 2; }
trap 'git -C /repo checkout -- . ; git -C /repo clean -fdq src' EXIT
for id in "$@"; do
    out=$(cd /verif && CGV_EVIDENCE_DIR=/tmp/seed-evidence ./run "$id" ${TIER:-quick} 2>&1)
    rc=$?
    echo "== $id rc=$rc"
    echo "$out" | grep -E "VIOLATION|KNOWN|INCONCLUSIVE|BUILD" | head -5
    echo "$out" | tail -2
done
