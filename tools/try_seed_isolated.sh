#!/bin/bash
# tools/try_seed_isolated.sh <patch.diff> <ID> [<ID>...]
# Like try_seed.sh, but leaves /repo alone: the change is applied to a scratch worktree of /repo (/tmp/seedrepo) and the
# harness is built against that worktree in a scratch copy (/tmp/seedharness, build output in /tmp/seedtarget).
# Used while a long run that rebuilds from /repo is in progress.  Remove the three directories when done
# (git -C /repo worktree remove --force /tmp/seedrepo; rm -rf /tmp/seedharness /tmp/seedtarget).
patch="$(readlink -f "$1")"; shift
X="${SEED_SUFFIX:-}"   # a second instance can run side by side with SEED_SUFFIX=2
SR=/tmp/seedrepo$X; SH=/tmp/seedharness$X; ST=/tmp/seedtarget$X
export CARGO_NET_OFFLINE=true RUST_BACKTRACE=0 CARGO_TERM_COLOR=never
head=$(git -C /repo rev-parse HEAD)
[ -d "$SR" ] || git -C /repo worktree add -q --detach "$SR" HEAD || exit 2
git -C "$SR" checkout -q -- . ; git -C "$SR" checkout -q --detach "$head" || exit 2
mkdir -p "$SH" "$ST"
rsync -a --delete --exclude target --exclude fuzz /verif/harness/cgv/ "$SH/"
sed -i "s#path = \"/repo\"#path = \"$SR\"#" "$SH/Cargo.toml"
git -C "$SR" apply "$patch" || { echo "patch does not apply"; exit 2; }
trap "git -C $SR checkout -q -- ." EXIT
(cd "$SH" && CARGO_TARGET_DIR="$ST/harness" cargo build --release --offline -q 2>"$ST/build.log") || { echo "BUILD FAILED (harness vs changed tree)"; tail -5 "$ST/build.log"; exit 2; }
cargo build --release --offline -q --manifest-path "$SR/Cargo.toml" --features verif --bin complgen --target-dir "$ST/repo" 2>>"$ST/build.log" || { echo "BUILD FAILED (binary)"; exit 2; }
for id in "$@"; do
    out=$(cd /verif && CGV_VERIF_DIR=/verif CGV_BIN="$ST/repo/release/complgen" CGV_EVIDENCE_DIR=/tmp/seed-evidence "$ST/harness/release/cgv" "$id" ${TIER:-quick} 2>&1)
    rc=$?
    echo "== $id rc=$rc"
    echo "$out" | grep -E "VIOLATION|INCONCLUSIVE|BUILD" | head -4
    echo "$out" | tail -2
done
