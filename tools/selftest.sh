#!/bin/bash
# tools/selftest.sh [name...]  —  sensitivity self-test (not part of MANIFEST.json)
# Applies each kept seeded change (seeded/<name>/patch.diff) to /repo's working tree, runs the quick check of the
# property it was written against (plus the extra checks listed below), undoes the change, prints one line per change.
# Evidence and replay files of these runs go to /tmp/seed-evidence, never to /verif/evidence.
cd "$(dirname "$(readlink -f "$0")")/.." || exit 2
declare -A EXTRA=( [C01-b]="C02" [C09-b]="C04" [C17-b]="C04" [C13-a]="C15" [C13-b]="C15" [C14-a]="C05" [C03-a]="C02" )
names=("$@")
if [ ${#names[@]} -eq 0 ]; then
    for d in seeded/*/; do n=$(basename "$d"); case "$n" in *obsolete*) ;; *) names+=("$n");; esac; done
fi
if ! git -C /repo diff --quiet; then echo "/repo has uncommitted changes"; exit 2; fi
ok=0; miss=0
for n in "${names[@]}"; do
    prop="${n%%-*}"
    checks="$prop ${EXTRA[$n]:-}"
    git -C /repo apply "seeded/$n/patch.diff" 2>/dev/null || { echo "$n: patch does not apply"; continue; }
    res=""
    caught=no
    for c in $checks; do
        out=$(CGV_EVIDENCE_DIR=/tmp/seed-evidence ./run "$c" quick 2>&1); rc=$?
        res="$res $c:rc=$rc"
        [ $rc -eq 1 ] && echo "$out" | grep -q "^VIOLATION property=$c" && caught=yes
    done
    git -C /repo checkout -- . ; git -C /repo clean -fdq src
    if [ $caught = yes ]; then ok=$((ok+1)); echo "$n: CAUGHT ($res )"; else miss=$((miss+1)); echo "$n: MISSED ($res )"; fi
done
echo "caught $ok, missed $miss"
./run --build
