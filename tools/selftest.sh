#!/bin/bash
# tools/selftest.sh [name...]  —  sensitivity self-test (not part of MANIFEST.json)
# Applies each kept seeded change (seeded/<name>/patch.diff) to a scratch worktree of /repo (never to /repo itself, see
# tools/try_seed_isolated.sh), runs the quick check of the property it was written against (plus the extra checks
# listed below) and prints one line per change.  Evidence of these runs goes to /tmp/seed-evidence.
cd "$(dirname "$(readlink -f "$0")")/.." || exit 2
declare -A EXTRA=( [C01-b]="C02" [C01-c]="C04" [C09-b]="C04" [C17-b]="C04" [C17-c]="C02" [C13-a]="C15" [C13-b]="C15" [C14-a]="C05" [C03-a]="C02" [C09-f]="C02" )
names=("$@")
if [ ${#names[@]} -eq 0 ]; then
    for d in seeded/*/; do n=$(basename "$d"); case "$n" in *obsolete*) ;; *) names+=("$n");; esac; done
fi
ok=0; miss=0
for n in "${names[@]}"; do
    prop="${n%%-*}"
    checks="$prop ${EXTRA[$n]:-}"
    out=$(tools/try_seed_isolated.sh "seeded/$n/patch.diff" $checks 2>&1)
    if echo "$out" | grep -q "patch does not apply\|BUILD FAILED"; then echo "$n: NOT RUN ($(echo "$out" | grep -m1 "patch does not apply\|BUILD FAILED"))"; continue; fi
    res=$(echo "$out" | grep "^== " | tr '\n' ' ')
    if echo "$out" | grep -q "^VIOLATION property="; then ok=$((ok+1)); echo "$n: CAUGHT ($res)"; else miss=$((miss+1)); echo "$n: MISSED ($res)"; fi
done
echo "caught $ok, missed $miss"
