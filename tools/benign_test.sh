#!/bin/bash
# tools/benign_test.sh [B01 ...] — applies each kept harmless change (benign/<name>/patch.diff: refactorings that
# change emitted bytes, state numbering, table order, dump layout, internal structure but keep all 17 properties)
# to a scratch worktree (tools/try_seed_isolated.sh, never /repo) and runs the quick checks listed in its
# meta.json ("checks"); every one of them must stay silent (exit 0).
cd /verif || exit 2
names=("$@"); [ ${#names[@]} -eq 0 ] && names=($(ls benign))
bad=0
for n in "${names[@]}"; do
  ids=$(python3 -c "import json;print(' '.join(json.load(open('/verif/benign/$n/meta.json'))['checks']))")
  out=$(tools/try_seed_isolated.sh benign/$n/patch.diff $ids 2>&1)
  if echo "$out" | grep -q "^VIOLATION\|rc=[12]"; then echo "$n: ALARM ($(echo "$out" | grep "^== " | tr '\n' ' '))"; bad=1; else echo "$n: silent ($(echo "$out" | grep "^== " | tr '\n' ' '))"; fi
done
exit $bad
