#!/bin/bash
# tools/confirm_seed.sh <seed-dir> : confirm a seeded change in a scratch worktree of /repo (outside /repo and /verif):
# applies, builds, runs the pinned tests, runs the demonstration with and without the change. Prints one summary line.
# Keeps a shared build directory /tmp/confirm-target between calls; remove it when done (tools/confirm_seed.sh --clean).
set -u
if [ "${1:-}" = "--clean" ]; then rm -rf /tmp/confirm-target /tmp/confirm-bin; exit 0; fi
sd="$(readlink -f "$1")"
export CARGO_NET_OFFLINE=true CARGO_TARGET_DIR=/tmp/confirm-target RUST_BACKTRACE=0
wt=/tmp/confirm-wt.$$
git -C /repo worktree add -q --detach "$wt" HEAD || exit 2
trap 'git -C /repo worktree remove --force "$wt"' EXIT
mkdir -p /tmp/confirm-bin
cd "$wt"
head=$(git rev-parse --short HEAD)
if [ ! -x /tmp/confirm-bin/complgen.$head ]; then
    cargo build --offline -q 2>/tmp/confirm-build.log || { echo "RESULT $sd: baseline build failed"; exit 2; }
    cp /tmp/confirm-target/debug/complgen /tmp/confirm-bin/complgen.$head
fi
git apply "$sd/patch.diff" || { echo "RESULT $sd: patch does not apply to $head"; exit 1; }
cargo build --offline -q 2>/tmp/confirm-build.log || { echo "RESULT $sd: does not compile"; tail -5 /tmp/confirm-build.log; exit 1; }
cp /tmp/confirm-target/debug/complgen /tmp/confirm-bin/complgen.patched
tests=$(cargo test --offline 2>&1 | grep -E "^test result" | head -1)
demo="$sd/demo.sh"
if [ -f "$demo" ]; then
    (cd /tmp && bash "$demo" /tmp/confirm-bin/complgen.patched "$wt" >/tmp/confirm-demo-patched.log 2>&1); rc_p=$?
    git checkout -q -- . 
    (cd /tmp && bash "$demo" /tmp/confirm-bin/complgen.$head "$wt" >/tmp/confirm-demo-orig.log 2>&1); rc_o=$?
else
    rc_p=NA; rc_o=NA
fi
echo "RESULT $sd: tests[$tests] demo_with_change_rc=$rc_p demo_without_rc=$rc_o"
