#!/usr/bin/env python3-vt
"""Regenerates /verif/MANIFEST.json from the table below (keeps the file valid and consistent)."""
import json, subprocess, sys

CHECKS = {
 "C02": ("translation_validation",
         "Per generated grammar and shell, complgen's raw and minimised automata (nested within-word automata included) are compared for exact labelled-language equality with a reference automaton built independently (own AST -> Thompson NFA -> subset construction -> canonical minimal DFA); complete per grammar over all word sequences, sampled/exhaustive-to-a-bound over grammars.",
         "4.C02", "generated grammars (exhaustive small trees + seeded proptest choice streams) x differential oracle: reference-model language equivalence",
         "trusted: harness printer, reference semantics (model.rs), automata library; grammars the pipeline rejects are counted and judged by C08"),
 "C03": ("translation_validation",
         "Per generated grammar and shell: raw == minimize(raw) by product construction over complgen's own alphabet, the result is trim with no two Moore-equivalent states and has the size of an independently minimised copy; within-word automata checked for trim-minimality and against the reference word languages.",
         "4.C03", "generated grammars (exhaustive + seeded proptest, 'dense' minimisation-stress profile) x exact equivalence/minimality decision per automaton",
         "trusted: harness automata library; raw within-word automata are not observable (only their minimised form)"),
 "C05": ("exploration",
         "Round trip print -> Grammar::parse -> tree comparison for every tree <= N nodes and for random deeper trees with full literal/description character sets and random layout; the metamorphic half compares two layouts of one tree.",
         "4.C05", "generated trees (exhaustive + seeded proptest choice streams) x round-trip oracle",
         "trusted: the printer rules of DESIGN.md Appendix A"),
}

CHECKS["C06"] = ("exploration",
         "The built binary is run as a subprocess on generated inputs (planted mistakes in random multi-line layout, token mutations, token soups, raw bytes, brackets nested up to 64 deep, and a fixed set of 38 extreme shapes: nesting towers, 40 layers of diamond definitions, 400 alternatives, ...) x shell x destination kind and judged by a validity predicate on exit status, stderr, stdout and the destination file; the same inputs go through the library pipeline and all emitters in-process at 20x the volume to catch panics.",
         "4.C06", "generated inputs (seeded proptest choice streams: grammar-aware mutation + planted mistakes + soups + raw bytes) x validity-predicate oracle on the subprocess; in-process no-panic oracle",
         "process creation is a serial resource on this box (~90 runs/s), so the subprocess part is ~1.5k runs in quick; cyclic definitions are pre-screened out of the in-process part and covered by the subprocess part; a supervisor process turns a harness crash into a verdict by re-judging the traced inputs with the binary")

CHECKS["C08"] = ("exploration",
         "A clean-by-construction grammar (must be accepted for all four shells) plus at most one planted mistake of a known class at a random place (behind 0-4 operator levels and chains of definitions) is compiled through the library pipeline (Error variant compared with the planted class) and through the binary (exit status + keyword of the first diagnostic line).",
         "4.C08", "generated grammars (seeded proptest choice streams: clean base + one planted mistake) x construction-known verdict oracle (library Error variant, binary exit status/diagnostic keyword)",
         "trusted: Appendix B (what counts as clean) and the planted-mistake constructors; cycle cases are judged through the binary only; one known finding (juxtaposed literal + definition reference inside a definition) has a dedicated witness and is avoided by construction")

CHECKS["C11"] = ("exploration",
         "Exhaustive over all 2^5 definition subsets x {X, PATH, DIRECTORY} x 9 reference positions x 4 shells x 2 statement orders: the compiled automaton, the command functions read from the emitted script, a metamorphic comparison (other shells' definitions removed) and, for bash, execution of the script all have to show the definition the rule selects; plus all ordered pairs of two of the names x 2^5 x 2^5 subsets at once, plus random grammars with several specialised names.",
         "4.C11", "exhaustive enumeration of definition subsets/positions + seeded random grammars x oracle: rule-implementing reference semantics, script reader, metamorphic script equality, bash execution",
         "trusted: reference semantics (model.rs Resolver), command-function reader; fish/zsh/pwsh functions are read, not executed")

CHECKS["C14"] = ("exploration",
         "Metamorphic: two independent renderings of one generated grammar (layout, comments, form feeds, CRLF, '::=', final ';', redundant parentheses around space-separated items, statement order with call variants kept in order) must compile to byte-identical scripts for all four shells (library pipeline, 100k grammars in quick) and through the real binary (stdout + exit status, sampled).",
         "4.C14", "generated grammars x two generated renderings (seeded proptest choice streams) x metamorphic oracle: byte-identical output",
         "trusted: the printer rules (validated by C05 over the same printer)")

CHECKS["C10"] = ("exploration",
         "Differential: repeated compilations of one grammar text must give byte-identical script, --dfa and --regex output: 3 compilations per (grammar, shell) inside one process (every randomly seeded container instance gets new keys), and separately started complgen processes with different environments, path spellings and destinations, also compared with the in-process result; bundled examples + large random grammars.",
         "4.C10", "generated large grammars + bundled examples x differential oracle across repeated in-process compilations and separately started processes with generated environments",
         "a hash seed fixed at compile time cannot be varied from outside (stated limit); trusted: nothing beyond byte comparison")

CHECKS["C13"] = ("exploration",
         "Generated grammars (literals with backslash escapes, random multi-line layout) with one planted located mistake or a syntax error inserted into the k-th statement: every span of the library's Error and every PATH:LINE:COL the binary prints must coincide with a position the harness's printer recorded for a construct of the right kind, 'previous' precedes 'duplicate', the snippet is that source line and the underline starts under the column.",
         "4.C13", "generated grammars + planted located mistakes / inserted syntax errors (seeded proptest choice streams) x position oracle from the printer's own token marks",
         "trusted: printer marks (byte and character columns both accepted); cycle traces may include the definition the search started from; warnings' locations are judged by C15 with the same marks")
CHECKS["C15"] = ("exploration",
         "Generated grammars with stress on the reference bookkeeping (chains of unused definitions, names referred to only by unused definitions, unused specialisations for target/other shells, names defined for some shells only, plain+specialised names): the three warning sets of the validated grammar (library) and the located warnings parsed from the binary's stderr must equal the sets the statement prescribes, exactly once each, at an occurrence of the name in the right role; exit status 0; the script equals the script of the grammar without the unreferenced definitions.",
         "4.C15", "generated grammars (seeded proptest choice streams) x set oracle computed from the harness's own reference resolver + metamorphic oracle (unreferenced definitions removed)",
         "trusted: reference resolver (model.rs), printer marks, stderr reader")

CHECKS["C16"] = ("exploration",
         "Generated grammars with quotes, backslashes and braces in literals, descriptions and commands and several within-word automata x 4 shells: both dumps are parsed with the harness's own DOT reader; the --dfa graph is compared structurally with the library's minimised automaton (node set with base, shapes, labelled edges in bijection with transitions, one cluster per within-word automaton, exact set of dashed entry/exit edges), the --regex graph must contain every expected item as an exactly labelled node; the binary's files equal the library's dumps.",
         "4.C16", "generated grammars (seeded proptest choice streams) x validity + structural-equality oracle through an independent DOT reader",
         "graphviz is not installed: the DOT reader (written from the DOT grammar and graphviz's scanner rules) is trusted")

CHECKS["C01"] = ("exploration",
         "Generated grammars on C01's stated domain are compiled with the real binary, the script is sourced in real bash 5.2 and generated command lines (walks through the reference automaton, foreign and truncated words, every kind of typed prefix) x COMP_WORDBREAKS {default, empty} are completed; COMPREPLY must equal, as a set, the answer of a reference interpreter built on the harness's own semantics of the grammar (levels, literal priority, word-break stripping, nothing on a dead walk).",
         "4.C01", "generated grammars x generated command lines (seeded proptest choice streams) x differential oracle: reference interpreter vs execution in bash",
         "trusted: reference semantics + interpreter (model.rs, interp.rs), bash driver; bash queries run at ~20-30/s on this box whatever the parallelism, so quick = 150 grammars (~1400 completions), thorough = 4000 grammars; two known findings (word skipped before a command; truncated word accepted) are classified by signature and have witnesses")

CHECKS["C12"] = ("exploration",
         "Generated grammars with a within-word alternation over prefix chains (optionally two || levels, optionally a separator and a second value set) followed by further words are compiled with the real binary and executed in bash: every value fully typed as a complete word -> the reference interpreter's exact answer for the following word; every prefix of every value as the cursor word -> all allowed values properly extending it are offered and nothing but allowed extensions.",
         "4.C12", "generated value sets with prefix chains (seeded proptest choice streams) x enumerated queries per grammar x reference-interpreter / bounds oracle against bash execution",
         "trusted: reference interpreter; the cursor-word oracle is a lower/upper bound because the statement does not say whether the typed value itself is offered; ~700 completions per quick run (bash throughput limit)")

CHECKS["C17"] = ("exploration",
         "Generated grammars whose commands are logging probes (fixed output incl. candidates with blanks, tab-separated descriptions, an empty list) at top level, inside words, under [], ..., |, ||, through definitions, executed in bash with generated command lines (plus glob-looking words and candidates with blanks as words): COMPREPLY equals the reference interpreter's answer, every logged invocation is one the grammar allows at that point with the documented arguments, every command expected at the cursor up to the winning level was invoked, argc is 2.",
         "4.C17", "generated grammars with probe commands x generated command lines (seeded proptest choice streams) x reference-interpreter oracle + invocation-log oracle against bash execution",
         "trusted: reference interpreter, probe function and driver; the region of the known finding 'word skipped before a command' is classified and counted, truncated words (C01's other known finding) are avoided and counted; ~600 completions per quick run")

CHECKS["C09"] = ("exploration",
         "Generated grammars outside C01's restriction on purpose (one literal in several || branches / call variants, the same within-word expression twice, permuted alternatives, twin words): exact predicate on complgen's raw and minimised automata (no state with two outgoing items that accept a common word and differ in target; within-word automata compared as word languages), and metamorphic execution in bash of the grammar against its variant with every || replaced by | (subset, same emptiness, equality with the reference interpreter).",
         "4.C09", "generated grammars with deliberately overlapping expectations (seeded proptest choice streams) x exact automaton predicate + metamorphic (|| -> |) oracle executed in bash",
         "trusted: automata library (label-erased canonical forms), reference interpreter; known finding F-permuted-twin-words is classified by its signature (two different within-word automata with equal word languages at one state) and has a witness")

CHECKS["C07"] = ("exploration",
         "Generated literals, word prefixes and descriptions over the whole admitted character set, biased to dangerous combinations, placed at top level and inside a word: (A) for all four shells every literal array and description constant of the emitted script is decoded with an independent implementation of that shell's double-quote rules and must give back exactly the grammar's text, with no active expansion and a well-formed statement; (B) in bash: bash -n, candidates, identical words and generated near misses (globs, changed characters, would-be expansions) are compared character for character with the reference interpreter, and no canary file may appear.",
         "4.C07", "generated strings (seeded proptest choice streams) x round-trip oracle through independent per-shell string lexers + execution in bash against the reference interpreter",
         "trusted: the per-shell double-quote rules as implemented in strconst.rs (bash manual 3.1.2.3, fish 'Quotes', zshmisc 'Quoting', PowerShell specification 2.3.5.2); fish/zsh/pwsh are not executed")

CHECKS["C04"] = ("translation_validation",
         "Per generated grammar and shell the emitted script is read back by an independent reader (the shell's own string-quoting rules and index base; for bash and pwsh also their dynamic scoping of table names) into literal list, descriptions, match tables, per-level candidate tables, start states, command functions and registration; the labelled transition set reconstructed from the tables must equal the transition set of the library's minimised automaton, state numbers included, for the main automaton and for every within-word table set (shared shape functions resolved); plus binary == library output and bash -n.",
         "4.C04", "generated grammars (exhaustive small trees + seeded proptest choice streams, rich in same-shaped / differently shaped / level-resplit within-word expressions) x differential oracle: tables read back from the script vs the compiled automaton",
         "trusted: the per-shell table readers (scripts.rs, strconst.rs); accepting states are not embedded in any script and cannot be compared; fish/zsh/pwsh interpreter loops are not executed")

NOT_YET = {
}

def main():
    props = [json.loads(l) for l in open('/verif/properties.jsonl')]
    ids = [p['id'] for p in props]
    hooks_commits = subprocess.check_output(['git','-C','/repo','log','--format=%H','--grep=^verif:']).decode().split()
    checks = []
    for pid in ids:
        if pid not in CHECKS: continue
        cat, text, ref, tech, note = CHECKS[pid]
        checks.append({
            "property_id": pid,
            "quick_cmd": f"./run {pid} quick",
            "thorough_cmd": f"./run {pid} thorough",
            "evidence_file": f"/verif/evidence/{pid}.json",
            "replay_cmd_template": f"./run {pid} --replay {{path}}",
            "engine": "cgv",
            "level_claimed": {"category": cat, "text": text, "design_ref": ref},
            "level_note": note,
            "technique": tech,
        })
    na = [{"property_id": pid, "reason": NOT_YET.get(pid, "check under construction in this session; not claimed until its machinery is committed")} for pid in ids if pid not in CHECKS]
    m = {
        "version": 1,
        "setup_cmd": "./run --build",
        "hooks": {
            "guard": "cargo feature `verif` (off by default)",
            "enable": "harness depends on complgen = { path = \"/repo\", features = [\"verif\"] }; the binary is built with `cargo build --release --features verif --bin complgen --target-dir /verif/target/repo`",
            "baseline_off_cmd": "cd /repo && cargo test --workspace --no-fail-fast --offline",
            "source_commits": hooks_commits,
            "add_only": True,
        },
        "engines": [{"name": "cgv", "path": "/verif/harness/cgv", "serves_properties": [c["property_id"] for c in checks],
                     "kind_free_text": "Rust harness: own grammar AST/printer/reference semantics, proptest-driven choice-stream generators with shrinking, exhaustive enumerators, bash driver, script/DOT readers"}],
        "checks": checks,
        "not_applicable": na,
        "notes": "All checks: exit 0 held / exit 1 + VIOLATION line / exit 2 could not run. VERIF_SEED seeds every generator. known_findings.json lists genuine defects (fixed or known).",
    }
    json.dump(m, open('/verif/MANIFEST.json','w'), indent=1)
    # validate
    try:
        import jsonschema
        jsonschema.validate(m, json.load(open('/root/.vp/MANIFEST.schema.json')))
        print("MANIFEST valid;", len(checks), "checks,", len(na), "not_applicable")
    except ImportError:
        print("jsonschema not available; written without validation")

if __name__ == '__main__':
    main()
