#!/usr/bin/env python3
"""tools/keep_seed.py <src-dir> <name> '<confirm result line>' '<check results>'  -> /verif/seeded/<name>/"""
import json, os, shutil, sys
src, name, confirm, checks = sys.argv[1:5]
dst = f"/verif/seeded/{name}"
os.makedirs(dst, exist_ok=True)
for f in os.listdir(src):
    if os.path.isfile(os.path.join(src, f)):
        shutil.copy(os.path.join(src, f), os.path.join(dst, f))
mp = os.path.join(dst, "meta.json")
try:
    meta = json.load(open(mp))
except Exception:
    meta = {}
meta["author"] = "independent sub-agent given only the property text and a scratch worktree"
meta["confirmed_by_me"] = {"how": "tools/confirm_seed.sh: scratch worktree of /repo HEAD, git apply, cargo build, cargo test (59 pinned tests), demo with and without the change", "result": confirm}
meta["checks_run"] = {"how": "tools/try_seed.sh: git -C /repo apply, ./run <ID> quick, git -C /repo checkout -- .", "result": checks}
json.dump(meta, open(mp, "w"), indent=1)
print("kept", dst)
