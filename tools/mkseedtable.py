#!/usr/bin/env python3
"""Regenerates the table of section 9 of DESIGN.md from seeded/*/meta.json."""
import json, os, re
p = '/verif/DESIGN.md'
s = open(p).read()
rows = []
for d in sorted(os.listdir('/verif/seeded')):
    mp = '/verif/seeded/%s/meta.json' % d
    if not os.path.exists(mp):
        continue
    m = json.load(open(mp))
    summ = re.sub(r'\s+', ' ', m.get('summary', ''))
    if len(summ) > 260:
        summ = summ[:257] + '...'
    res = m.get('checks_run', {}).get('result', m.get('status', ''))
    res = re.sub(r'\s+', ' ', res)
    rows.append("| %s | %s | %s |" % (d, summ.replace('|', '\\|'), res.replace('|', '\\|')))
head = "| change | what it does | result |\n|---|---|---|\n"
i = s.index(head)
j = s.index("\n\nLessons that went back into the machinery")
s = s[:i] + head + "\n".join(rows) + s[j:]
open(p, 'w').write(s)
print(len(rows), "rows")
