#![no_main]
// libFuzzer target: the same choice-stream decoder and the same oracle as the proptest parts of C05
use libfuzzer_sys::fuzz_target;

fuzz_target!(|data: &[u8]| {
    if let Some(msg) = cgv::fuzzapi::case("C05", data) {
        panic!("VIOLATION {}", msg);
    }
});
