//! Generator of *arbitrary* grammar trees (C05): any mix of operators, literals over the full permitted
//! character set, descriptions over printable characters; not necessarily semantically valid grammars.

use crate::ast::*;
use crate::src::Src;

const LIT_PLAIN: &[u8] = b"abcxyzABZ019-_=:/+,@%^~!$&'*?`#";
const LIT_ESC: &[u8] = b"()[]<>|;\"{}\\";

pub fn gen_lit_text(s: &mut Src) -> String {
    let n = 1 + s.weighted(&[6, 5, 4, 3, 2, 1, 1, 1]);
    let mut t = String::new();
    for i in 0..n {
        let k = s.weighted(&[10, 2, 2]);
        let c = match k {
            0 => *s.pick(LIT_PLAIN) as char,
            1 => '.',
            _ => *s.pick(LIT_ESC) as char,
        };
        // '#' after a blank starts a comment: never first (Appendix A rule 2)
        let c = if i == 0 && c == '#' { 'h' } else { c };
        t.push(c);
    }
    t
}

const DESCR_CHARS: &[&str] = &[
    "a", "b", " ", "Z", "0", "\"", "\\", "'", "$", "`", "!", "#", ";", "|", "<", ">", "(", ")", "[", "]", "{", "}", ".",
    "\t", "\n", "\u{e9}", "\u{4e16}", "\u{201c}", "%", "=", ",",
];

pub fn gen_descr(s: &mut Src) -> String {
    let n = s.weighted(&[1, 4, 4, 3, 3, 2, 2, 1, 1, 1, 1, 1]);
    let mut t = String::new();
    for _ in 0..n {
        t.push_str(*s.pick(DESCR_CHARS));
    }
    t
}

const NAME_PLAIN: &[u8] = b"ABCXYZabc019_-";
const NAME_ODD: &[&str] = &[" ", ".", "=", ";", "|", "<", "(", "\"", "\\", "#", "\u{e9}", "{", "]"];

pub fn gen_nt_name(s: &mut Src, allow_at: bool) -> String {
    let n = 1 + s.weighted(&[4, 4, 3, 2, 1]);
    let mut t = String::new();
    for _ in 0..n {
        match s.weighted(&[12, 2, 1]) {
            0 => t.push(*s.pick(NAME_PLAIN) as char),
            1 => t.push_str(*s.pick(NAME_ODD)),
            _ => t.push(if allow_at { '@' } else { 'A' }),
        }
    }
    t
}

const CMD_PARTS: &[&str] = &[
    "echo", " ", "foo", "\"$1\"", "|", "}", "{", "}}", "'x y'", "\n", "$(ls)", ";", "\\", "-A", "\t", "\u{e9}", "#", "<", ">", "printf '%s\\n' a",
];

pub fn gen_cmd_text(s: &mut Src) -> String {
    let n = s.weighted(&[1, 3, 4, 3, 2, 1, 1]);
    let mut t = String::new();
    for _ in 0..n {
        t.push_str(*s.pick(CMD_PARTS));
    }
    while t.contains("}}}") {
        t = t.replace("}}}", "}} }");
    }
    t.trim().to_string()
}

pub fn gen_tree(s: &mut Src, depth: usize, budget: &mut usize) -> E {
    if *budget > 0 {
        *budget -= 1;
    }
    let leaf_only = depth == 0 || *budget == 0;
    let k = if leaf_only { s.weighted(&[6, 3, 2, 2]) } else { s.weighted(&[5, 3, 2, 2, 5, 4, 3, 3, 3, 4, 3]) };
    match k {
        0 => E::Lit { text: gen_lit_text(s), descr: None },
        1 => E::Lit { text: gen_lit_text(s), descr: Some(gen_descr(s)) },
        2 => E::Nt(gen_nt_name(s, true)),
        3 => E::Cmd(gen_cmd_text(s)),
        4 => E::Seq(gen_children(s, depth, budget)),
        5 => E::Alt(gen_children(s, depth, budget)),
        6 => E::Fb(gen_children(s, depth, budget)),
        7 => E::Opt(Box::new(gen_tree(s, depth - 1, budget))),
        8 => E::Many(Box::new(gen_tree(s, depth - 1, budget))),
        9 => E::Word(gen_children(s, depth, budget)),
        _ => {
            let c = gen_tree(s, depth - 1, budget);
            E::Descr(Box::new(c), gen_descr(s))
        }
    }
}

fn gen_children(s: &mut Src, depth: usize, budget: &mut usize) -> Vec<E> {
    let n = 2 + s.weighted(&[6, 3, 1]);
    (0..n).map(|_| gen_tree(s, depth - 1, budget)).collect()
}

const SHELL_NAMES: &[&str] = &["bash", "fish", "zsh", "pwsh", "ksh", "Bash", "x y", "sh.", "z"];

pub fn gen_any_grammar(s: &mut Src, max_depth: usize, max_nodes: usize) -> G {
    let nst = 1 + s.weighted(&[6, 3, 2, 1]);
    let mut stmts = vec![];
    for _ in 0..nst {
        let mut budget = max_nodes / nst + 1;
        let kind = s.weighted(&[5, 3, 2]);
        let depth = s.range(0, max_depth);
        let e = gen_tree(s, depth, &mut budget);
        match kind {
            0 => stmts.push(Stmt::Call { name: gen_lit_text(s), e }),
            1 => stmts.push(Stmt::Def { name: gen_nt_name(s, false), shell: None, e }),
            _ => stmts.push(Stmt::Def { name: gen_nt_name(s, false), shell: Some(s.pick(SHELL_NAMES).to_string()), e }),
        }
    }
    G { stmts }
}

/// Exhaustive enumeration of expression trees with exactly `n` nodes over a 4-leaf vocabulary.
pub fn enum_trees(n: usize, leaves: &[E]) -> Vec<E> {
    fn compositions(total: usize, parts: usize) -> Vec<Vec<usize>> {
        if parts == 1 {
            return if total >= 1 { vec![vec![total]] } else { vec![] };
        }
        let mut out = vec![];
        for first in 1..=total.saturating_sub(parts - 1) {
            for mut rest in compositions(total - first, parts - 1) {
                let mut v = vec![first];
                v.append(&mut rest);
                out.push(v);
            }
        }
        out
    }
    fn product(sizes: &[usize], memo: &Vec<Vec<E>>) -> Vec<Vec<E>> {
        let mut acc: Vec<Vec<E>> = vec![vec![]];
        for sz in sizes {
            let mut next = vec![];
            for pre in &acc {
                for e in &memo[*sz] {
                    let mut v = pre.clone();
                    v.push(e.clone());
                    next.push(v);
                }
            }
            acc = next;
        }
        acc
    }
    let mut memo: Vec<Vec<E>> = vec![vec![]; n + 1];
    for k in 1..=n {
        let mut out = vec![];
        if k == 1 {
            out.extend(leaves.iter().cloned());
        } else {
            for c in &memo[k - 1] {
                out.push(E::Opt(Box::new(c.clone())));
                out.push(E::Many(Box::new(c.clone())));
                out.push(E::Descr(Box::new(c.clone()), "gd".to_string()));
            }
            for arity in 2..=(k - 1).min(3) {
                for comp in compositions(k - 1, arity) {
                    for kids in product(&comp, &memo) {
                        out.push(E::Seq(kids.clone()));
                        out.push(E::Alt(kids.clone()));
                        out.push(E::Fb(kids.clone()));
                        out.push(E::Word(kids));
                    }
                }
            }
        }
        memo[k] = out;
    }
    memo.pop().unwrap()
}
