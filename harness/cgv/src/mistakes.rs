//! Planted mistakes (C08, C13, C06): a clean grammar plus at most one mistake of a known class.

use crate::ast::*;
use crate::src::Src;

#[derive(Clone, Debug, PartialEq, Eq, PartialOrd, Ord)]
pub enum Class {
    Cycle,
    DuplicatePlain,
    DuplicateSpec,
    VaryingNames,
    NoCallVariant,
    SlashInName,
    UnknownShell,
    NonCommandSpec,
    SubwordSpaces,
    PlaceholderNotLast,
    ConflictingDescriptions,
}

impl Class {
    pub fn error_variant(&self) -> &'static str {
        match self {
            Class::Cycle => "NonterminalDefinitionsCycle",
            Class::DuplicatePlain | Class::DuplicateSpec => "DuplicateNonterminalDefinition",
            Class::VaryingNames => "VaryingCommandNames",
            Class::NoCallVariant => "MissingCallVariants",
            Class::SlashInName => "InvalidCommandName",
            Class::UnknownShell => "UnknownShell",
            Class::NonCommandSpec => "NonCommandSpecialization",
            Class::SubwordSpaces => "SubwordSpaces",
            Class::PlaceholderNotLast => "UnboundedMatchable",
            Class::ConflictingDescriptions => "ConflictingDescriptions",
        }
    }
    /// case-insensitive keyword the first diagnostic line must contain
    pub fn keyword(&self) -> &'static str {
        match self {
            Class::Cycle => "cycl",
            Class::DuplicatePlain | Class::DuplicateSpec => "duplicate",
            Class::VaryingNames => "command name",
            Class::NoCallVariant => "call variant",
            Class::SlashInName => "command name",
            Class::UnknownShell => "unknown shell",
            Class::NonCommandSpec => "speciali",
            Class::SubwordSpaces => "subword",
            Class::PlaceholderNotLast => "ambiguous",
            Class::ConflictingDescriptions => "conflicting description",
        }
    }
    pub fn name(&self) -> String {
        format!("{:?}", self)
    }
}

#[derive(Clone, Debug)]
pub struct Planted {
    pub g: G,
    pub class: Class,
    /// shells for which the mistake is a mistake (None = all four)
    pub only_shell: Option<String>,
    pub variant: String,
    /// the mistake sits behind >= 1 definition or >= 2 operator levels
    pub deep: bool,
    /// tokens a located diagnostic may point at: (mark kind tag, name/text)
    pub locus: Vec<(String, String)>,
}

const FRESH: [&str; 6] = ["Q0", "Q1", "Q2", "Q3", "Q4", "Q5"];

/// Put `m` somewhere it is used: wrapped in 0..4 operator levels and possibly behind a chain of
/// definitions, then attached to a call variant (or to a definition the call variants use).
/// `in_word_ctx`: m must stay directly inside the word it brings along (no wrapper changes that).
fn attach(s: &mut Src, g: &G, m: E, wrap_ok: bool) -> (G, bool) {
    let mut g = g.clone();
    let mut e = m;
    let mut depth = 0;
    let mut behind_def = 0;
    let levels = s.below(5);
    for i in 0..levels {
        if !wrap_ok {
            break;
        }
        let k = s.below(7);
        e = match k {
            0 => E::Opt(Box::new(e)),
            1 => E::Many(Box::new(e)),
            2 => E::Alt(vec![lit("zz1"), e]),
            3 => E::Seq(vec![lit("zz2"), e]),
            4 => E::Fb(vec![lit("zz3"), e]),
            5 => E::Seq(vec![e, lit("zz4")]),
            _ => {
                // behind a definition
                let name = FRESH[i % FRESH.len()].to_string();
                if g.defs().any(|(n, _, _)| *n == name) {
                    e
                } else {
                    let pos = s.below(g.stmts.len() + 1);
                    g.stmts.insert(pos, Stmt::Def { name: name.clone(), shell: None, e });
                    behind_def += 1;
                    E::Nt(name)
                }
            }
        };
        depth += 1;
    }
    // attach to a call variant
    let calls: Vec<usize> = g.stmts.iter().enumerate().filter(|(_, st)| matches!(st, Stmt::Call { .. })).map(|(i, _)| i).collect();
    let how = s.below(4);
    if calls.is_empty() || how == 0 {
        let name = g.calls().next().map(|(n, _)| n.clone()).unwrap_or_else(|| "cmd".to_string());
        let pos = s.below(g.stmts.len() + 1);
        g.stmts.insert(pos, Stmt::Call { name, e });
    } else {
        let ci = calls[s.below(calls.len())];
        if let Stmt::Call { e: old, .. } = &mut g.stmts[ci] {
            let o = old.clone();
            *old = match how {
                1 => E::Seq(vec![o, e]),
                2 => E::Alt(vec![o, e]),
                _ => E::Seq(vec![e, o]),
            };
        }
    }
    (g, depth >= 2 || behind_def >= 1)
}

fn chain_defs(s: &mut Src, g: &mut G, body: E, levels: usize, prefix: &str) -> E {
    // <P0> = <P1>; <P1> = ... ; <Pn> = body   -> returns <P0>
    let mut cur = body;
    for i in (0..levels).rev() {
        let name = format!("{prefix}{i}");
        let pos = s.below(g.stmts.len() + 1);
        // optionally decorate the link so that it is not a bare alias
        let b = match s.below(3) {
            0 => cur,
            1 => E::Alt(vec![cur, lit("lnk")]),
            _ => E::Opt(Box::new(cur)),
        };
        g.stmts.insert(pos, Stmt::Def { name: name.clone(), shell: None, e: b });
        cur = E::Nt(name);
    }
    cur
}

pub fn plant(s: &mut Src, base: &G) -> Planted {
    let k = s.below(11);
    let mut g = base.clone();
    let cmdname = g.calls().next().map(|(n, _)| n.clone()).unwrap_or_else(|| "cmd".to_string());
    match k {
        0 => {
            // cyclic definitions
            let n = 1 + s.below(3);
            let names: Vec<String> = (0..n).map(|i| format!("CY{i}")).collect();
            let in_word = s.chance(1, 4);
            for i in 0..n {
                let next = E::Nt(names[(i + 1) % n].clone());
                let body = if in_word {
                    E::Word(vec![lit("cy="), next])
                } else {
                    match s.below(4) {
                        0 => next,
                        1 => E::Seq(vec![lit("cyc"), next]),
                        2 => E::Alt(vec![lit("cyc"), next]),
                        _ => E::Opt(Box::new(E::Seq(vec![next, lit("cyc")]))),
                    }
                };
                let pos = s.below(g.stmts.len() + 1);
                g.stmts.insert(pos, Stmt::Def { name: names[i].clone(), shell: None, e: body });
            }
            let reach = s.below(4);
            let (g2, variant, deep) = match reach {
                0 => {
                    let pick = s.below(n);
                    let (g2, _) = attach(s, &g, E::Nt(names[pick].clone()), true);
                    (g2, format!("cycle{n}-reachable-from-call-variant"), true)
                }
                1 => {
                    // reachable only from an unused definition
                    let pos = s.below(g.stmts.len() + 1);
                    g.stmts.insert(pos, Stmt::Def { name: "UNUSEDROOT".into(), shell: None, e: E::Seq(vec![lit("u"), E::Nt(names[0].clone())]) });
                    (g, format!("cycle{n}-reachable-only-from-unused-definition"), true)
                }
                2 => {
                    // reachable from nothing, while another definition is a root
                    if g.defs().filter(|(_, sh, _)| sh.is_none()).count() == n {
                        let pos = s.below(g.stmts.len() + 1);
                        g.stmts.insert(pos, Stmt::Def { name: "OTHERROOT".into(), shell: None, e: lit("o") });
                    }
                    (g, format!("cycle{n}-unreferenced-with-other-roots"), true)
                }
                _ => (g, format!("cycle{n}-unreferenced"), n > 1),
            };
            Planted { g: g2, class: Class::Cycle, only_shell: None, variant, deep, locus: names.iter().map(|n| ("nt".to_string(), n.clone())).collect() }
        }
        1 => {
            // duplicate plain definition
            let existing: Vec<(String, E)> = g.defs().filter(|(_, sh, _)| sh.is_none()).map(|(n, _, e)| (n.clone(), e.clone())).collect();
            let (name, used) = if !existing.is_empty() && s.bool() {
                (existing[s.below(existing.len())].0.clone(), true)
            } else {
                let pos = s.below(g.stmts.len() + 1);
                g.stmts.insert(pos, Stmt::Def { name: "DUP".into(), shell: None, e: lit("d1") });
                ("DUP".to_string(), false)
            };
            let pos = s.below(g.stmts.len() + 1);
            let body = if s.bool() { lit("dup2") } else { E::Seq(vec![lit("dup2"), lit("x")]) };
            g.stmts.insert(pos, Stmt::Def { name: name.clone(), shell: None, e: body });
            if !used && s.bool() {
                let (g2, _) = attach(s, &g, E::Nt(name.clone()), true);
                g = g2;
            }
            Planted { g, class: Class::DuplicatePlain, only_shell: None, variant: "duplicate-plain".into(), deep: true, locus: vec![("def".into(), name)] }
        }
        2 => {
            // duplicate @S definition: a mistake only when S is the target
            let sh = s.pick(&["bash", "fish", "zsh", "pwsh"]).to_string();
            let name = "DS".to_string();
            for i in 0..2 {
                let pos = s.below(g.stmts.len() + 1);
                g.stmts.insert(pos, Stmt::Def { name: name.clone(), shell: Some(sh.clone()), e: E::Cmd(format!("dupspec{i}")) });
            }
            if s.bool() {
                let (g2, _) = attach(s, &g, E::Nt(name.clone()), true);
                g = g2;
            }
            Planted { g, class: Class::DuplicateSpec, only_shell: Some(sh), variant: "duplicate-spec".into(), deep: true, locus: vec![("def".into(), name)] }
        }
        3 => {
            let other = s.pick(&["other", "cmd2", "Cmd", "cmd-x"]).to_string();
            let pos = s.below(g.stmts.len() + 1);
            g.stmts.insert(pos, Stmt::Call { name: other.clone(), e: lit("v") });
            Planted { g, class: Class::VaryingNames, only_shell: None, variant: "varying-names".into(), deep: pos > 0, locus: vec![("call".into(), other), ("call".into(), cmdname)] }
        }
        4 => {
            g.stmts.retain(|st| !matches!(st, Stmt::Call { .. }));
            let empty = g.stmts.is_empty();
            Planted { g, class: Class::NoCallVariant, only_shell: None, variant: if empty { "empty-file".into() } else { "definitions-only".into() }, deep: !empty, locus: vec![] }
        }
        5 => {
            let bad = s.pick(&["/usr/bin/cmd", "a/b", "./cmd", "cmd/"]).to_string();
            for st in g.stmts.iter_mut() {
                if let Stmt::Call { name, .. } = st {
                    *name = bad.clone();
                }
            }
            Planted { g, class: Class::SlashInName, only_shell: None, variant: "slash".into(), deep: false, locus: vec![("call".into(), bad)] }
        }
        6 => {
            let sh = s.pick(&["ksh", "Bash", "powershell", "sh", "nu", "bash "]).to_string();
            let pos = s.below(g.stmts.len() + 1);
            g.stmts.insert(pos, Stmt::Def { name: "US".into(), shell: Some(sh.clone()), e: E::Cmd("echo us".into()) });
            if s.bool() {
                let (g2, _) = attach(s, &g, E::Nt("US".into()), true);
                g = g2;
            }
            Planted { g, class: Class::UnknownShell, only_shell: None, variant: "unknown-shell".into(), deep: pos > 0, locus: vec![("shell".into(), sh)] }
        }
        7 => {
            let sh = s.pick(&["bash", "fish", "zsh", "pwsh"]).to_string();
            let body = match s.below(3) {
                0 => lit("notcmd"),
                1 => E::Alt(vec![lit("a"), E::Cmd("c".into())]),
                _ => E::Seq(vec![E::Cmd("c".into()), lit("x")]),
            };
            let pos = s.below(g.stmts.len() + 1);
            g.stmts.insert(pos, Stmt::Def { name: "NC".into(), shell: Some(sh), e: body });
            if s.bool() {
                let (g2, _) = attach(s, &g, E::Nt("NC".into()), true);
                g = g2;
            }
            Planted { g, class: Class::NonCommandSpec, only_shell: None, variant: "non-command-spec".into(), deep: pos > 0, locus: vec![("def".into(), "NC".into())] }
        }
        8 => {
            // two space-separated literals inside a word
            let pair = E::Seq(vec![lit("sp1"), lit("sp2")]);
            let inner = match s.below(5) {
                0 => pair,
                1 => E::Alt(vec![lit("c"), pair]),
                2 => E::Opt(Box::new(pair)),
                // the first literal gets its description from the enclosing group
                3 => E::Descr(Box::new(pair), "group descr".into()),
                _ => E::Descr(Box::new(E::Alt(vec![lit("c"), pair])), "group descr".into()),
            };
            let levels = s.below(5);
            let piece = if levels == 0 { inner } else { chain_defs(s, &mut g, inner, levels, "SPC") };
            let mut w = E::Word(vec![lit("--sp="), piece.clone()]);
            let mut also = "";
            if levels > 0 {
                // the same definition is also used where blanks are fine (outside any word), before or after
                match s.below(4) {
                    0 => {
                        w = E::Seq(vec![piece.clone(), w]);
                        also = "-also-used-outside-before";
                    }
                    1 => {
                        w = E::Seq(vec![w, piece.clone()]);
                        also = "-also-used-outside-after";
                    }
                    _ => {}
                }
            }
            let (g2, deep) = attach(s, &g, w, true);
            Planted { g: g2, class: Class::SubwordSpaces, only_shell: None, variant: format!("subword-spaces-behind-{levels}-definitions{also}"), deep: deep || levels > 0, locus: vec![("lit".into(), "sp1".into()), ("lit".into(), "sp2".into())] }
        }
        9 => {
            // a placeholder inside a word that something can follow
            let ph = E::Nt(s.pick(&["UPH", "_"]).to_string());
            let variant;
            let w = match s.below(8) {
                5 => {
                    // what follows the placeholder is also reachable through a sibling alternative
                    variant = "placeholder-in-alternative-then-literal";
                    E::Word(vec![lit("--ph="), E::Alt(vec![lit("alt"), ph]), lit("tail")])
                }
                6 => {
                    variant = "placeholder-repeated";
                    E::Word(vec![lit("--ph="), E::Many(Box::new(ph))])
                }
                7 => {
                    variant = "placeholder-last-in-one-alternative-then-literal";
                    E::Word(vec![lit("--ph="), E::Alt(vec![lit("alt"), E::Word(vec![lit("pre"), ph])]), lit("tail")])
                }
                0 => {
                    variant = "placeholder-then-literal";
                    E::Word(vec![lit("--ph="), ph, lit("tail")])
                }
                1 => {
                    variant = "placeholder-then-optional";
                    E::Word(vec![lit("--ph="), ph, E::Opt(Box::new(lit("tail")))])
                }
                2 => {
                    variant = "placeholder-through-definition";
                    let lv = 1 + s.below(2);
                    let r = chain_defs(s, &mut g, ph, lv, "PHD");
                    E::Word(vec![lit("--ph="), r, lit("tail")])
                }
                3 => {
                    variant = "placeholder-inside-defined-word";
                    let r = chain_defs(s, &mut g, E::Word(vec![lit("ph:"), ph]), 1, "PHW");
                    E::Word(vec![r, lit("tail")])
                }
                _ => {
                    variant = "placeholder-then-placeholder";
                    E::Word(vec![ph, E::Nt("UPH2".into())])
                }
            };
            let (g2, deep) = attach(s, &g, w, true);
            Planted { g: g2, class: Class::PlaceholderNotLast, only_shell: None, variant: variant.into(), deep: deep || variant.contains("defin"), locus: vec![] }
        }
        _ => {
            // same literal at one point with two different descriptions
            let a1 = litd("cfl", "first descr");
            let a2 = litd("cfl", "second descr");
            let variant;
            let m = match s.below(5) {
                0 => {
                    variant = "conflict-alt";
                    E::Alt(vec![a1, a2])
                }
                1 => {
                    variant = "conflict-fallback-branches";
                    E::Fb(vec![a1, a2])
                }
                2 => {
                    variant = "conflict-through-definitions";
                    let lv = 1 + s.below(2);
                    let r1 = chain_defs(s, &mut g, a1, lv, "CFA");
                    let r2 = chain_defs(s, &mut g, a2, 1, "CFB");
                    E::Alt(vec![r1, r2])
                }
                3 => {
                    variant = "conflict-with-continuations";
                    E::Alt(vec![E::Seq(vec![a1, lit("k1")]), E::Seq(vec![a2, lit("k2")])])
                }
                _ => {
                    variant = "conflict-inside-word";
                    E::Word(vec![lit("--cf="), E::Alt(vec![a1, a2])])
                }
            };
            let (g2, deep) = attach(s, &g, m, true);
            Planted { g: g2, class: Class::ConflictingDescriptions, only_shell: None, variant: variant.into(), deep: deep || variant.contains("defin"), locus: vec![] }
        }
    }
}
