//! Driver for the built `complgen` binary (subprocess with a timeout) and scratch directories.

use std::io::{Read, Write};
use std::path::{Path, PathBuf};
use std::process::{Command, Stdio};
use std::sync::atomic::{AtomicU64, Ordering};
use std::time::{Duration, Instant};

pub fn bin_path() -> String {
    std::env::var("CGV_BIN").unwrap_or_else(|_| "/verif/target/repo/release/complgen".to_string())
}

static COUNTER: AtomicU64 = AtomicU64::new(0);

/// per-process scratch root, removed by `cleanup_scratch`
pub fn scratch_root() -> PathBuf {
    if let Ok(root) = std::env::var("CGV_SCRATCH_ROOT") {
        let p = PathBuf::from(root);
        let _ = std::fs::create_dir_all(&p);
        return p;
    }
    let base = std::env::var("CGV_SCRATCH").unwrap_or_else(|_| std::env::temp_dir().to_string_lossy().to_string());
    let p = PathBuf::from(base).join(format!("cgv.{}", std::process::id()));
    let _ = std::fs::create_dir_all(&p);
    p
}

pub fn scratch_dir() -> PathBuf {
    let n = COUNTER.fetch_add(1, Ordering::Relaxed);
    let p = scratch_root().join(format!("c{}", n));
    let _ = std::fs::create_dir_all(&p);
    p
}

pub fn cleanup_scratch() {
    let _ = std::fs::remove_dir_all(scratch_root());
}

pub struct Scratch(pub PathBuf);
impl Scratch {
    pub fn new() -> Scratch {
        Scratch(scratch_dir())
    }
    pub fn path(&self, name: &str) -> PathBuf {
        self.0.join(name)
    }
}
impl Drop for Scratch {
    fn drop(&mut self) {
        let _ = std::fs::remove_dir_all(&self.0);
    }
}

#[derive(Debug, Clone)]
pub struct ProcOut {
    pub status: Option<i32>,
    pub signal: Option<i32>,
    pub stdout: Vec<u8>,
    pub stderr: Vec<u8>,
    pub timed_out: bool,
    pub wall: Duration,
}

impl ProcOut {
    pub fn stderr_s(&self) -> String {
        String::from_utf8_lossy(&self.stderr).to_string()
    }
    pub fn stdout_s(&self) -> String {
        String::from_utf8_lossy(&self.stdout).to_string()
    }
}

pub fn run_proc(prog: &str, args: &[String], stdin: Option<&[u8]>, env: &[(String, String)], cwd: Option<&Path>, timeout: Duration) -> std::io::Result<ProcOut> {
    run_proc_env(prog, args, stdin, env, cwd, timeout, false)
}

pub fn run_proc_env(prog: &str, args: &[String], stdin: Option<&[u8]>, env: &[(String, String)], cwd: Option<&Path>, timeout: Duration, clear_env: bool) -> std::io::Result<ProcOut> {
    use std::os::unix::process::ExitStatusExt;
    let mut cmd = Command::new(prog);
    if clear_env {
        cmd.env_clear();
    }
    cmd.args(args).stdin(if stdin.is_some() { Stdio::piped() } else { Stdio::null() }).stdout(Stdio::piped()).stderr(Stdio::piped());
    cmd.env("RUST_BACKTRACE", "0");
    for (k, v) in env {
        cmd.env(k, v);
    }
    if let Some(d) = cwd {
        cmd.current_dir(d);
    }
    let t0 = Instant::now();
    let mut child = cmd.spawn()?;
    let mut so = child.stdout.take().unwrap();
    let mut se = child.stderr.take().unwrap();
    let stdin_data: Option<Vec<u8>> = stdin.map(|s| s.to_vec());
    let si = child.stdin.take();
    let hin = std::thread::spawn(move || {
        if let (Some(mut si), Some(d)) = (si, stdin_data) {
            let _ = si.write_all(&d);
        }
    });
    let hout = std::thread::spawn(move || {
        let mut b = vec![];
        let _ = so.read_to_end(&mut b);
        b
    });
    let herr = std::thread::spawn(move || {
        let mut b = vec![];
        let _ = se.read_to_end(&mut b);
        b
    });
    let mut timed_out = false;
    let status = loop {
        match child.try_wait()? {
            Some(st) => break st,
            None => {
                if t0.elapsed() > timeout {
                    timed_out = true;
                    let _ = child.kill();
                    break child.wait()?;
                }
                std::thread::sleep(Duration::from_micros(300));
            }
        }
    };
    let _ = hin.join();
    let stdout = hout.join().unwrap_or_default();
    let stderr = herr.join().unwrap_or_default();
    Ok(ProcOut { status: status.code(), signal: status.signal(), stdout, stderr, timed_out, wall: t0.elapsed() })
}

pub fn complgen(args: &[String], stdin: Option<&[u8]>, env: &[(String, String)], cwd: Option<&Path>) -> std::io::Result<ProcOut> {
    run_proc(&bin_path(), args, stdin, env, cwd, Duration::from_secs(10))
}

/// `complgen --<shell> - <file>` with the grammar in a scratch file; returns (out, path used)
pub fn compile_text(text: &str, shell: &str, sc: &Scratch) -> std::io::Result<ProcOut> {
    let inp = sc.path("in.usage");
    std::fs::write(&inp, text)?;
    complgen(&[format!("--{shell}"), "-".to_string(), inp.to_string_lossy().to_string()], None, &[], None)
}

pub fn s(x: &str) -> String {
    x.to_string()
}
