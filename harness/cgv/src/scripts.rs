//! Readers for the data tables of the emitted scripts (DESIGN.md 2.7): one small statement reader per
//! shell, built on that shell's string lexer (strconst.rs), and an interpretation of the statements as
//! automaton tables.  Nothing here shares code with the emitters.

use crate::strconst::lex_dq;
use std::collections::BTreeMap;

#[derive(Clone, Debug, PartialEq)]
pub enum Val {
    Str(String),
    Bare(String),
    List(Vec<Val>),
    Map(Vec<(String, Val)>),
}

impl Val {
    pub fn text(&self) -> Option<&str> {
        match self {
            Val::Str(s) | Val::Bare(s) => Some(s),
            _ => None,
        }
    }
}

#[derive(Clone, Debug)]
pub struct Stmt {
    pub name: String,
    pub index: Option<String>,
    pub val: Val,
}

#[derive(Clone, Debug, Default)]
pub struct Func {
    pub name: String,
    pub stmts: Vec<Stmt>,
    /// other functions called with the two pass-through arguments (shape delegation)
    pub calls: Vec<String>,
}

struct Cur<'a> {
    c: &'a [char],
    i: usize,
    shell: &'a str,
}

impl<'a> Cur<'a> {
    fn peek(&self) -> Option<char> {
        self.c.get(self.i).copied()
    }
    fn starts(&self, pat: &str) -> bool {
        let p: Vec<char> = pat.chars().collect();
        self.c.len() >= self.i + p.len() && self.c[self.i..self.i + p.len()] == p[..]
    }
    fn eat(&mut self, pat: &str) -> bool {
        if self.starts(pat) {
            self.i += pat.chars().count();
            true
        } else {
            false
        }
    }
    fn ident(&mut self) -> String {
        let st = self.i;
        while self.peek().map(|c| c.is_ascii_alphanumeric() || c == '_').unwrap_or(false) {
            self.i += 1;
        }
        self.c[st..self.i].iter().collect()
    }
    fn bare(&mut self, stops: &str) -> String {
        let st = self.i;
        while self.peek().map(|c| !stops.contains(c) && c != '\n').unwrap_or(false) {
            self.i += 1;
        }
        self.c[st..self.i].iter().collect()
    }
    fn dq(&mut self) -> Result<String, String> {
        let l = lex_dq(self.shell, self.c, self.i)?;
        self.i = l.end;
        Ok(l.text)
    }
    fn skip_line(&mut self) {
        while self.peek().map(|c| c != '\n').unwrap_or(false) {
            self.i += 1;
        }
    }
    fn line(&self) -> usize {
        self.c[..self.i.min(self.c.len())].iter().filter(|c| **c == '\n').count() + 1
    }
}

/// bash / zsh: `( [k]=v [k]="v w" "elem" ... )`
fn sh_paren(cur: &mut Cur) -> Result<Val, String> {
    if !cur.eat("(") {
        return Err(format!("line {}: expected '('", cur.line()));
    }
    let mut items: Vec<(Option<String>, Val)> = vec![];
    loop {
        while cur.peek() == Some(' ') {
            cur.i += 1;
        }
        match cur.peek() {
            Some(')') => {
                cur.i += 1;
                break;
            }
            Some('[') => {
                cur.i += 1;
                let k = cur.bare("]");
                if !cur.eat("]=") {
                    return Err(format!("line {}: malformed [key]=value", cur.line()));
                }
                let v = if cur.peek() == Some('"') { Val::Str(cur.dq()?) } else { Val::Bare(cur.bare(" )")) };
                items.push((Some(k), v));
            }
            Some('"') => items.push((None, Val::Str(cur.dq()?))),
            Some(c) if c != '\n' => items.push((None, Val::Bare(cur.bare(" )")))),
            other => return Err(format!("line {}: unexpected {:?} inside ( ... )", cur.line(), other)),
        }
    }
    if items.iter().all(|(k, _)| k.is_some()) && !items.is_empty() {
        Ok(Val::Map(items.into_iter().map(|(k, v)| (k.unwrap(), v)).collect()))
    } else if items.iter().all(|(k, _)| k.is_none()) {
        Ok(Val::List(items.into_iter().map(|(_, v)| v).collect()))
    } else {
        Err(format!("line {}: mixed array initialiser", cur.line()))
    }
}

/// parse the content of a table cell such as `([0]=1 [1]=2)` (held in a string constant)
pub fn parse_sh_cell(shell: &str, s: &str) -> Result<Val, String> {
    let chars: Vec<char> = s.chars().collect();
    let mut cur = Cur { c: &chars, i: 0, shell };
    sh_paren(&mut cur)
}

fn read_sh(shell: &str, command: &str, script: &str) -> Result<(Vec<Func>, Vec<String>), String> {
    let chars: Vec<char> = script.chars().collect();
    let mut cur = Cur { c: &chars, i: 0, shell };
    let mut funcs: Vec<Func> = vec![];
    let mut top: Vec<String> = vec![];
    let mut current: Option<Func> = None;
    let fn_prefix = format!("_{command}");
    while cur.i < chars.len() {
        // at a line start
        let line_start = cur.i;
        let mut indent = 0;
        while cur.peek() == Some(' ') {
            cur.i += 1;
            indent += 1;
        }
        if indent == 0 {
            // function header / closer / top-level statement
            if cur.starts(&fn_prefix) || cur.starts("compadd_hook") || cur.starts("__complgen") {
                let st = cur.i;
                cur.skip_line();
                let l: String = chars[st..cur.i].iter().collect();
                if let Some(name) = l.strip_suffix(" () {") {
                    if let Some(f) = current.take() {
                        funcs.push(f);
                    }
                    current = Some(Func { name: name.to_string(), ..Default::default() });
                }
                cur.i += 1;
                continue;
            }
            if cur.peek() == Some('}') && chars.get(cur.i + 1).map(|c| *c == '\n').unwrap_or(true) {
                if let Some(f) = current.take() {
                    funcs.push(f);
                }
                cur.skip_line();
                cur.i += 1;
                continue;
            }
            let st = cur.i;
            cur.skip_line();
            let l: String = chars[st..cur.i].iter().collect();
            if current.is_none() && !l.is_empty() {
                top.push(l);
            }
            cur.i += 1;
            continue;
        }
        let Some(f) = current.as_mut() else {
            cur.skip_line();
            cur.i += 1;
            continue;
        };
        // the body of a command function is free text
        if f.name.starts_with(&format!("_{command}_cmd_")) {
            cur.skip_line();
            cur.i += 1;
            continue;
        }
        // statements of interest sit at the function's first indentation level
        if indent != 4 {
            cur.skip_line();
            cur.i += 1;
            continue;
        }
        let _ = line_start;
        let save = cur.i;
        let mut decl = false;
        if cur.eat("local ") || cur.eat("declare ") {
            decl = true;
            let _ = cur.eat("-a ") || cur.eat("-A ");
        }
        if cur.starts(&fn_prefix) {
            // a call: `_cmd_subword_shape_0 "$1" "$2"` / `"$@"`
            let name = cur.bare(" ");
            f.calls.push(name);
            cur.skip_line();
            cur.i += 1;
            continue;
        }
        let name = cur.ident();
        if name.is_empty() {
            cur.i = save;
            cur.skip_line();
            cur.i += 1;
            continue;
        }
        let mut index = None;
        if cur.peek() == Some('[') && !decl {
            cur.i += 1;
            let k = cur.bare("]");
            if k.contains('$') || !cur.eat("]") {
                cur.i = save;
                cur.skip_line();
                cur.i += 1;
                continue;
            }
            index = Some(k);
        }
        if !cur.eat("=") {
            cur.i = save;
            cur.skip_line();
            cur.i += 1;
            continue;
        }
        let interesting = is_table_name(&name);
        if !interesting {
            cur.i = save;
            cur.skip_line();
            cur.i += 1;
            continue;
        }
        let val = match cur.peek() {
            Some('"') => Val::Str(cur.dq().map_err(|e| format!("line {}: {name}: {e}", cur.line()))?),
            Some('(') => sh_paren(&mut cur).map_err(|e| format!("{name}: {e}"))?,
            Some('$') => {
                // interpreter code (`local prefix=${...}`), not a table
                cur.i = save;
                cur.skip_line();
                cur.i += 1;
                continue;
            }
            _ => Val::Bare(cur.bare(" ")),
        };
        if cur.peek().map(|c| c != '\n').unwrap_or(false) {
            return Err(format!("line {}: text after the value of {name}", cur.line()));
        }
        f.stmts.push(Stmt { name, index, val });
        cur.i += 1;
    }
    if let Some(f) = current.take() {
        funcs.push(f);
    }
    Ok((funcs, top))
}

fn is_table_name(n: &str) -> bool {
    let base = n.strip_prefix("subword_").unwrap_or(n);
    let stem: String = {
        // strip a trailing _level_N
        match base.rfind("_level_") {
            Some(i) if base[i + 7..].chars().all(|c| c.is_ascii_digit()) && !base[i + 7..].is_empty() => base[..i].to_string(),
            _ => base.to_string(),
        }
    };
    matches!(
        stem.as_str(),
        "literals"
            | "descriptions"
            | "descrs"
            | "descr_id_from_literal_id"
            | "descr_literal_ids"
            | "descr_ids"
            | "literal_transitions"
            | "literal_transitions_inputs"
            | "literal_transitions_tos"
            | "command_transitions"
            | "compadd_transitions"
            | "star_transitions"
            | "star_transitions_from"
            | "star_transitions_to"
            | "transitions"
            | "transitions_ids"
            | "transitions_tos"
            | "commands"
            | "compadd_commands"
            | "literal_froms"
            | "literal_inputs"
            | "command_froms"
            | "froms"
            | "subwords"
            | "max_fallback_level"
            | "state"
    ) || n == "subwords_level_0"
}

fn read_fish(command: &str, script: &str) -> Result<(Vec<Func>, Vec<String>), String> {
    let chars: Vec<char> = script.chars().collect();
    let mut cur = Cur { c: &chars, i: 0, shell: "fish" };
    let mut funcs: Vec<Func> = vec![];
    let mut top: Vec<String> = vec![];
    let mut current: Option<Func> = None;
    let fn_prefix = format!("_{command}");
    while cur.i < chars.len() {
        let mut indent = 0;
        while cur.peek() == Some(' ') {
            cur.i += 1;
            indent += 1;
        }
        if indent == 0 {
            let st = cur.i;
            cur.skip_line();
            let l: String = chars[st..cur.i].iter().collect();
            cur.i += 1;
            if let Some(name) = l.strip_prefix("function ") {
                if let Some(f) = current.take() {
                    funcs.push(f);
                }
                current = Some(Func { name: name.trim().to_string(), ..Default::default() });
            } else if l == "end" {
                if let Some(f) = current.take() {
                    funcs.push(f);
                }
            } else if current.is_none() && !l.is_empty() {
                top.push(l);
            }
            continue;
        }
        let Some(f) = current.as_mut() else {
            cur.skip_line();
            cur.i += 1;
            continue;
        };
        if f.name.starts_with(&format!("_{command}_cmd_")) || indent != 4 {
            cur.skip_line();
            cur.i += 1;
            continue;
        }
        if cur.starts(&fn_prefix) {
            let name = cur.bare(" ");
            f.calls.push(name);
            cur.skip_line();
            cur.i += 1;
            continue;
        }
        let save = cur.i;
        if !cur.eat("set ") {
            cur.skip_line();
            cur.i += 1;
            continue;
        }
        let _ = cur.eat("--global ");
        let name = cur.ident();
        let mut index = None;
        if cur.peek() == Some('[') {
            cur.i += 1;
            let k = cur.bare("]");
            if k.contains('$') || !cur.eat("]") {
                cur.i = save;
                cur.skip_line();
                cur.i += 1;
                continue;
            }
            index = Some(k);
        }
        if !is_table_name(&name) {
            cur.i = save;
            cur.skip_line();
            cur.i += 1;
            continue;
        }
        let mut args: Vec<Val> = vec![];
        let mut dynamic = false;
        loop {
            match cur.peek() {
                Some(' ') => cur.i += 1,
                Some('"') => args.push(Val::Str(cur.dq().map_err(|e| format!("line {}: {name}: {e}", cur.line()))?)),
                Some('\n') | None => break,
                Some('$') | Some('(') => {
                    dynamic = true;
                    break;
                }
                Some(_) => args.push(Val::Bare(cur.bare(" "))),
            }
        }
        if dynamic {
            cur.i = save;
            cur.skip_line();
            cur.i += 1;
            continue;
        }
        f.stmts.push(Stmt { name, index, val: Val::List(args) });
        cur.i += 1;
    }
    if let Some(f) = current.take() {
        funcs.push(f);
    }
    Ok((funcs, top))
}

/// pwsh: `@(...)`, `@{...}`, number, string
fn pwsh_value(cur: &mut Cur) -> Result<Val, String> {
    if cur.eat("@(") {
        let mut v = vec![];
        loop {
            while cur.peek().map(|c| c == ' ' || c == ',').unwrap_or(false) {
                cur.i += 1;
            }
            match cur.peek() {
                Some(')') => {
                    cur.i += 1;
                    break;
                }
                Some('"') => v.push(Val::Str(cur.dq()?)),
                Some(c) if c.is_ascii_digit() => v.push(Val::Bare(cur.bare(",) "))),
                other => return Err(format!("line {}: unexpected {:?} inside @( )", cur.line(), other)),
            }
        }
        return Ok(Val::List(v));
    }
    if cur.eat("@{") {
        let mut m = vec![];
        loop {
            while cur.peek().map(|c| c.is_whitespace() || c == ';').unwrap_or(false) {
                cur.i += 1;
            }
            match cur.peek() {
                Some('}') => {
                    cur.i += 1;
                    break;
                }
                Some(c) if c.is_ascii_digit() => {
                    let k = cur.bare("= ");
                    while cur.peek() == Some(' ') {
                        cur.i += 1;
                    }
                    if !cur.eat("=") {
                        return Err(format!("line {}: malformed hash table entry", cur.line()));
                    }
                    while cur.peek() == Some(' ') {
                        cur.i += 1;
                    }
                    let v = pwsh_value(cur)?;
                    m.push((k, v));
                }
                other => return Err(format!("line {}: unexpected {:?} inside @{{ }}", cur.line(), other)),
            }
        }
        return Ok(Val::Map(m));
    }
    if cur.peek() == Some('"') {
        return Ok(Val::Str(cur.dq()?));
    }
    Ok(Val::Bare(cur.bare(";}) ")))
}

fn read_pwsh(command: &str, script: &str) -> Result<(Vec<Func>, Vec<String>), String> {
    let chars: Vec<char> = script.chars().collect();
    let mut cur = Cur { c: &chars, i: 0, shell: "pwsh" };
    let mut funcs: Vec<Func> = vec![];
    let mut top: Vec<String> = vec![];
    let mut current: Option<Func> = None;
    let fn_prefix = format!("_{command}");
    while cur.i < chars.len() {
        let mut indent = 0;
        while cur.peek() == Some(' ') {
            cur.i += 1;
            indent += 1;
        }
        if indent == 0 {
            let st = cur.i;
            cur.skip_line();
            let l: String = chars[st..cur.i].iter().collect();
            cur.i += 1;
            if let Some(rest) = l.strip_prefix("function ") {
                if let Some(f) = current.take() {
                    funcs.push(f);
                }
                current = Some(Func { name: rest.trim_end_matches(" {").trim().to_string(), ..Default::default() });
            } else if l.starts_with("Register-ArgumentCompleter") {
                if let Some(f) = current.take() {
                    funcs.push(f);
                }
                top.push(l);
                current = Some(Func { name: "<main>".to_string(), ..Default::default() });
            } else if l == "}" {
                if let Some(f) = current.take() {
                    funcs.push(f);
                }
            } else if current.is_none() && !l.is_empty() {
                top.push(l);
            }
            continue;
        }
        let Some(f) = current.as_mut() else {
            cur.skip_line();
            cur.i += 1;
            continue;
        };
        if f.name.starts_with(&format!("_{command}_cmd_")) || indent != 4 {
            cur.skip_line();
            cur.i += 1;
            continue;
        }
        if cur.starts(&fn_prefix) {
            let name = cur.bare(" ");
            f.calls.push(name);
            cur.skip_line();
            cur.i += 1;
            continue;
        }
        let save = cur.i;
        if !cur.eat("$") {
            cur.skip_line();
            cur.i += 1;
            continue;
        }
        let name = cur.ident();
        let mut index = None;
        if cur.peek() == Some('[') {
            cur.i += 1;
            let k = cur.bare("]");
            if k.contains('$') || !cur.eat("]") {
                cur.i = save;
                cur.skip_line();
                cur.i += 1;
                continue;
            }
            index = Some(k);
        }
        if !cur.eat(" = ") || !is_table_name(&name) {
            cur.i = save;
            cur.skip_line();
            cur.i += 1;
            continue;
        }
        if cur.peek() == Some('$') || cur.peek() == Some('[') {
            cur.i = save;
            cur.skip_line();
            cur.i += 1;
            continue;
        }
        let val = pwsh_value(&mut cur).map_err(|e| format!("{name}: {e}"))?;
        if cur.peek().map(|c| c != '\n').unwrap_or(false) {
            // `$x = 0` style lines of the interpreter loop
            if !matches!(val, Val::Bare(_)) {
                return Err(format!("line {}: text after the value of ${name}", cur.line()));
            }
            cur.skip_line();
        }
        f.stmts.push(Stmt { name, index, val });
        cur.i += 1;
    }
    if let Some(f) = current.take() {
        funcs.push(f);
    }
    Ok((funcs, top))
}

// ---------------------------------------------------------------------------------------------
// interpretation of the statements as automaton tables

#[derive(Clone, Debug, Default, PartialEq)]
pub struct Tables {
    /// literal texts in table order (position 0 = the shell's first index)
    pub literals: Vec<String>,
    /// literal position -> description
    pub descr_of: BTreeMap<usize, String>,
    /// state -> literal position -> state   (states and literal ids rebased to 0)
    pub lit: BTreeMap<u32, BTreeMap<usize, u32>>,
    pub cmd: BTreeMap<u32, BTreeMap<usize, u32>>,
    pub compadd: BTreeMap<u32, BTreeMap<usize, u32>>,
    pub star: BTreeMap<u32, u32>,
    /// main automaton only: state -> within-word id (as printed) -> state
    pub sub: BTreeMap<u32, BTreeMap<usize, u32>>,
    /// per level: state -> ids offered
    pub lit_lv: Vec<BTreeMap<u32, Vec<usize>>>,
    pub cmd_lv: Vec<BTreeMap<u32, Vec<usize>>>,
    pub compadd_lv: Vec<BTreeMap<u32, Vec<usize>>>,
    pub sub_lv: Vec<BTreeMap<u32, Vec<usize>>>,
    pub max_level: Option<usize>,
    pub start: Option<u32>,
}

#[derive(Clone, Debug, Default)]
pub struct Script {
    pub main: Tables,
    /// within-word id (as printed) -> tables (shape tables merged with the wrapper's literals)
    pub subwords: BTreeMap<usize, Tables>,
    /// number of within-word functions that delegate to a shared shape function
    pub shared: usize,
    pub cmds: BTreeMap<usize, String>,
    pub registered_for: Option<String>,
    pub sub_start: Option<u32>,
}

fn num(s: &str) -> Result<usize, String> {
    s.trim().parse::<usize>().map_err(|_| format!("not a number: {s:?}"))
}

fn nums(s: &str) -> Result<Vec<usize>, String> {
    s.split_whitespace().map(num).collect()
}

fn level_of(name: &str) -> Option<(String, usize)> {
    let i = name.rfind("_level_")?;
    let n = name[i + 7..].parse::<usize>().ok()?;
    Some((name[..i].to_string(), n))
}

fn put_level(v: &mut Vec<BTreeMap<u32, Vec<usize>>>, level: usize, state: u32, ids: Vec<usize>) {
    while v.len() <= level {
        v.push(BTreeMap::new());
    }
    v[level].insert(state, ids);
}

fn ensure_level(v: &mut Vec<BTreeMap<u32, Vec<usize>>>, level: usize) {
    while v.len() <= level {
        v.push(BTreeMap::new());
    }
}

/// bash / zsh / pwsh share the "assoc of assoc" layout; `base` is the shell's index base
fn tables_from_assoc(shell: &str, stmts: &[Stmt], base: usize, in_subword_fn: bool) -> Result<Tables, String> {
    let mut t = Tables::default();
    let sb = |s: usize| -> Result<u32, String> { s.checked_sub(base).map(|x| x as u32).ok_or_else(|| format!("state {s} below the index base {base}")) };
    let lb = |s: usize| -> Result<usize, String> { s.checked_sub(base).ok_or_else(|| format!("literal id {s} below the index base {base}")) };
    let mut descr_texts: BTreeMap<usize, String> = BTreeMap::new();
    let mut descr_id_of_lit: BTreeMap<usize, usize> = BTreeMap::new();
    for st in stmts {
        let raw = st.name.as_str();
        let name = if in_subword_fn && shell == "zsh" { raw.strip_prefix("subword_").unwrap_or(raw) } else { raw };
        let cell = |v: &Val| -> Result<Vec<(usize, usize)>, String> {
            let m = match v {
                Val::Str(s) => parse_sh_cell(shell, s)?,
                other => other.clone(),
            };
            match m {
                Val::Map(kv) => kv.iter().map(|(k, v)| Ok((num(k)?, num(v.text().ok_or("nested value")?)?))).collect(),
                Val::List(l) if l.is_empty() => Ok(vec![]),
                other => Err(format!("unexpected cell {:?}", other)),
            }
        };
        let id_list = |v: &Val| -> Result<Vec<usize>, String> {
            match v {
                Val::Str(s) | Val::Bare(s) => nums(s),
                Val::List(l) => l.iter().map(|x| num(x.text().ok_or("nested")?)).collect(),
                other => Err(format!("unexpected id list {:?}", other)),
            }
        };
        if let Some((stem, level)) = level_of(name) {
            let target = match stem.as_str() {
                "literal_transitions" => 0,
                "commands" => 1,
                "compadd_commands" => 2,
                "subword_transitions" => 3,
                _ => continue,
            };
            let Val::Map(kv) = &st.val else {
                match &st.val {
                    Val::List(l) if l.is_empty() => {
                        match target {
                            0 => ensure_level(&mut t.lit_lv, level),
                            1 => ensure_level(&mut t.cmd_lv, level),
                            2 => ensure_level(&mut t.compadd_lv, level),
                            _ => ensure_level(&mut t.sub_lv, level),
                        }
                        continue;
                    }
                    other => return Err(format!("{raw}: unexpected value {:?}", other)),
                }
            };
            for (k, v) in kv {
                let state = sb(num(k)?)?;
                let ids = id_list(v)?;
                match target {
                    0 => put_level(&mut t.lit_lv, level, state, ids.into_iter().map(lb).collect::<Result<_, _>>()?),
                    1 => put_level(&mut t.cmd_lv, level, state, ids),
                    2 => put_level(&mut t.compadd_lv, level, state, ids),
                    _ => put_level(&mut t.sub_lv, level, state, ids),
                }
            }
            continue;
        }
        match (name, &st.index) {
            ("literals", None) => {
                if let Val::List(l) = &st.val {
                    t.literals = l.iter().filter_map(|x| x.text().map(|s| s.to_string())).collect();
                }
            }
            ("descriptions", None) => {
                // pwsh: literal id -> text; zsh: `declare -A descriptions=()`
                if let Val::Map(kv) = &st.val {
                    for (k, v) in kv {
                        t.descr_of.insert(lb(num(k)?)?, v.text().unwrap_or("").to_string());
                    }
                }
            }
            ("descriptions", Some(k)) => {
                descr_texts.insert(num(k)?, st.val.text().unwrap_or("").to_string());
            }
            ("descr_id_from_literal_id", None) => {
                if let Val::Map(kv) = &st.val {
                    for (k, v) in kv {
                        descr_id_of_lit.insert(lb(num(k)?)?, num(v.text().ok_or("nested")?)?);
                    }
                }
            }
            ("literal_transitions", Some(k)) | ("command_transitions", Some(k)) | ("compadd_transitions", Some(k)) | ("subword_transitions", Some(k)) => {
                let from = sb(num(k)?)?;
                let row = cell(&st.val)?;
                for (id, to) in row {
                    let to = sb(to)?;
                    match name {
                        "literal_transitions" => {
                            t.lit.entry(from).or_default().insert(lb(id)?, to);
                        }
                        "command_transitions" => {
                            t.cmd.entry(from).or_default().insert(id, to);
                        }
                        "compadd_transitions" => {
                            t.compadd.entry(from).or_default().insert(id, to);
                        }
                        _ => {
                            t.sub.entry(from).or_default().insert(id, to);
                        }
                    }
                }
            }
            ("star_transitions", None) => {
                if let Val::Map(kv) = &st.val {
                    for (k, v) in kv {
                        t.star.insert(sb(num(k)?)?, sb(num(v.text().ok_or("nested")?)?)?);
                    }
                }
            }
            ("max_fallback_level", None) => t.max_level = Some(num(st.val.text().unwrap_or(""))?),
            ("state", None) => {
                if let Some(x) = st.val.text() {
                    if let Ok(n) = num(x) {
                        t.start = Some(sb(n)?);
                    }
                }
            }
            _ => {}
        }
    }
    for (lit, did) in descr_id_of_lit {
        let Some(text) = descr_texts.get(&did) else { return Err(format!("literal {lit} refers to description {did}, which is not defined")) };
        t.descr_of.insert(lit, text.clone());
    }
    Ok(t)
}

fn tables_from_fish(stmts: &[Stmt], in_subword_fn: bool, is_main: bool) -> Result<Tables, String> {
    let mut t = Tables::default();
    let base = 1usize;
    let sb = |s: usize| -> Result<u32, String> { s.checked_sub(base).map(|x| x as u32).ok_or_else(|| format!("state {s} below 1")) };
    let lb = |s: usize| -> Result<usize, String> { s.checked_sub(base).ok_or_else(|| format!("literal id {s} below 1")) };
    let args = |v: &Val| -> Vec<String> {
        match v {
            Val::List(l) => l.iter().filter_map(|x| x.text().map(|s| s.to_string())).collect(),
            _ => vec![],
        }
    };
    let mut descr_texts: BTreeMap<usize, String> = BTreeMap::new();
    let (mut dl_ids, mut d_ids): (Vec<usize>, Vec<usize>) = (vec![], vec![]);
    let (mut lt_in, mut lt_to): (Vec<String>, Vec<String>) = (vec![], vec![]);
    let (mut star_from, mut star_to): (Vec<usize>, Vec<usize>) = (vec![], vec![]);
    let mut sw_ids: BTreeMap<usize, Vec<usize>> = BTreeMap::new();
    let mut sw_tos: BTreeMap<usize, Vec<usize>> = BTreeMap::new();
    let mut froms: BTreeMap<(String, usize), Vec<usize>> = BTreeMap::new();
    let mut cells: BTreeMap<(String, usize), Vec<String>> = BTreeMap::new();
    for st in stmts {
        let raw = st.name.as_str();
        let name = if in_subword_fn { raw.strip_prefix("subword_").unwrap_or(raw) } else { raw };
        let a = args(&st.val);
        if let Some((stem, level)) = level_of(name) {
            match stem.as_str() {
                "literal_froms" | "command_froms" | "subword_froms" => {
                    froms.insert((stem.clone(), level), a.iter().map(|x| num(x)).collect::<Result<_, _>>()?);
                }
                "literal_inputs" | "commands" | "subwords" => {
                    cells.insert((stem.clone(), level), a);
                }
                _ => {}
            }
            continue;
        }
        match (name, &st.index) {
            ("literals", None) => t.literals = a,
            ("descrs", Some(k)) => {
                descr_texts.insert(num(k)?, a.first().cloned().unwrap_or_default());
            }
            ("descr_literal_ids", None) => dl_ids = a.iter().map(|x| num(x)).collect::<Result<_, _>>()?,
            ("descr_ids", None) => d_ids = a.iter().map(|x| num(x)).collect::<Result<_, _>>()?,
            ("literal_transitions_inputs", None) => {
                if !a.is_empty() {
                    lt_in = a
                }
            }
            ("literal_transitions_tos", None) => lt_to = a,
            ("command_transitions", Some(k)) => {
                let from = sb(num(k)?)?;
                for pair in a.first().cloned().unwrap_or_default().split_whitespace() {
                    let (c, to) = pair.split_once(',').ok_or("malformed command transition")?;
                    t.cmd.entry(from).or_default().insert(num(c)?, sb(num(to)?)?);
                }
            }
            ("star_transitions_from", None) => star_from = a.iter().map(|x| num(x)).collect::<Result<_, _>>()?,
            ("star_transitions_to", None) => star_to = a.iter().map(|x| num(x)).collect::<Result<_, _>>()?,
            ("subword_transitions_ids", Some(k)) | ("transitions_ids", Some(k)) if is_main => {
                sw_ids.insert(num(k)?, nums(&a.first().cloned().unwrap_or_default())?);
            }
            ("subword_transitions_tos", Some(k)) | ("transitions_tos", Some(k)) if is_main => {
                sw_tos.insert(num(k)?, nums(&a.first().cloned().unwrap_or_default())?);
            }
            ("max_fallback_level", None) | ("subword_max_fallback_level", None) => t.max_level = Some(num(&a.first().cloned().unwrap_or_default())?),
            ("state", None) => {
                if let Some(x) = a.first() {
                    if let Ok(n) = num(x) {
                        t.start = Some(sb(n)?);
                    }
                }
            }
            _ => {}
        }
    }
    if dl_ids.len() != d_ids.len() {
        return Err("descr_literal_ids and descr_ids differ in length".into());
    }
    for (l, d) in dl_ids.iter().zip(d_ids.iter()) {
        let Some(text) = descr_texts.get(d) else { return Err(format!("description {d} is not defined")) };
        t.descr_of.insert(lb(*l)?, text.clone());
    }
    if lt_in.len() != lt_to.len() {
        return Err("literal_transitions_inputs and _tos differ in length".into());
    }
    for (i, (ins, tos)) in lt_in.iter().zip(lt_to.iter()).enumerate() {
        let (ins, tos) = (nums(ins)?, nums(tos)?);
        if ins.len() != tos.len() {
            return Err(format!("state {}: literal inputs and targets differ in length", i + 1));
        }
        for (l, to) in ins.iter().zip(tos.iter()) {
            t.lit.entry(i as u32).or_default().insert(lb(*l)?, sb(*to)?);
        }
    }
    if star_from.len() != star_to.len() {
        return Err("star_transitions_from and _to differ in length".into());
    }
    for (f, to) in star_from.iter().zip(star_to.iter()) {
        t.star.insert(sb(*f)?, sb(*to)?);
    }
    for (k, ids) in &sw_ids {
        let tos = sw_tos.get(k).ok_or("subword_transitions_tos missing")?;
        if ids.len() != tos.len() {
            return Err("subword ids and targets differ in length".into());
        }
        for (id, to) in ids.iter().zip(tos.iter()) {
            t.sub.entry(sb(*k)?).or_default().insert(*id, sb(*to)?);
        }
    }
    for ((stem, level), fr) in &froms {
        let (cell_stem, target) = match stem.as_str() {
            "literal_froms" => ("literal_inputs", 0),
            "command_froms" => ("commands", 1),
            _ => ("subwords", 3),
        };
        let cs = cells.get(&(cell_stem.to_string(), *level)).cloned().unwrap_or_default();
        if cs.len() != fr.len() {
            return Err(format!("{stem}_level_{level} and its cells differ in length"));
        }
        match target {
            0 => ensure_level(&mut t.lit_lv, *level),
            1 => ensure_level(&mut t.cmd_lv, *level),
            _ => ensure_level(&mut t.sub_lv, *level),
        }
        for (f, c) in fr.iter().zip(cs.iter()) {
            let ids = nums(c)?;
            match target {
                0 => put_level(&mut t.lit_lv, *level, sb(*f)?, ids.into_iter().map(lb).collect::<Result<_, _>>()?),
                1 => put_level(&mut t.cmd_lv, *level, sb(*f)?, ids),
                _ => put_level(&mut t.sub_lv, *level, sb(*f)?, ids),
            }
        }
    }
    Ok(t)
}

fn merge_shape(wrapper: &Tables, shape: &Tables) -> Tables {
    let mut t = shape.clone();
    t.literals = wrapper.literals.clone();
    t.descr_of = wrapper.descr_of.clone();
    t
}

pub fn read_script(shell: &str, command: &str, script: &str) -> Result<Script, String> {
    let (funcs, top) = match shell {
        "bash" | "zsh" => read_sh(shell, command, script)?,
        "fish" => read_fish(command, script)?,
        "pwsh" => read_pwsh(command, script)?,
        _ => return Err(format!("unknown shell {shell}")),
    };
    let base = if shell == "bash" || shell == "pwsh" { 0 } else { 1 };
    let mut s = Script::default();
    s.cmds = crate::readers::read_cmd_functions(shell, command, script)?;
    let main_name = if shell == "pwsh" { "<main>".to_string() } else { format!("_{command}") };
    let sub_prefix = format!("_{command}_subword_");
    let shape_prefix = format!("_{command}_subword_shape_");
    let generic_sub = format!("_{command}_subword");
    let mk = |f: &Func, in_sub: bool, is_main: bool| -> Result<Tables, String> {
        if shell == "fish" {
            tables_from_fish(&f.stmts, in_sub, is_main)
        } else {
            tables_from_assoc(shell, &f.stmts, base, in_sub)
        }
        .map_err(|e| format!("{}: {e}", f.name))
    };
    let mut shapes: BTreeMap<usize, Tables> = BTreeMap::new();
    for f in &funcs {
        if let Some(k) = f.name.strip_prefix(&shape_prefix) {
            shapes.insert(num(k)?, mk(f, true, false)?);
        }
    }
    let mut have_main = false;
    let mut pending_scope: Vec<(usize, std::collections::BTreeSet<String>)> = vec![];
    for f in &funcs {
        if f.name == main_name {
            s.main = mk(f, false, true)?;
            have_main = true;
        } else if f.name == generic_sub {
            // the generic matcher holds the start state of every within-word automaton
            for st in &f.stmts {
                if st.name == "subword_state" || st.name == "state" {
                    if let Some(n) = st.val.text().and_then(|x| x.parse::<usize>().ok()) {
                        s.sub_start = Some((n - base.min(n)) as u32);
                    }
                }
            }
        } else if f.name.starts_with(&shape_prefix) {
            continue;
        } else if let Some(k) = f.name.strip_prefix(&sub_prefix) {
            let id = num(k)?;
            let own = mk(f, true, false)?;
            let delegates: Vec<&String> = f.calls.iter().filter(|c| c.starts_with(&shape_prefix)).collect();
            let mut declared: std::collections::BTreeSet<String> = f.stmts.iter().filter(|st| st.index.is_none()).map(|st| st.name.clone()).collect();
            let t = if let Some(c) = delegates.first() {
                let k = num(c.strip_prefix(&shape_prefix).unwrap())?;
                let Some(shape) = shapes.get(&k) else { return Err(format!("{} delegates to the undefined shape {k}", f.name)) };
                if let Some(sf) = funcs.iter().find(|x| x.name == **c) {
                    declared.extend(sf.stmts.iter().filter(|st| st.index.is_none()).map(|st| st.name.clone()));
                }
                s.shared += 1;
                merge_shape(&own, shape)
            } else {
                own
            };
            pending_scope.push((id, declared));
            if s.subwords.insert(id, t).is_some() {
                return Err(format!("within-word function {id} defined twice"));
            }
        }
    }
    if !have_main {
        return Err("the completion function itself was not found".into());
    }
    // bash and PowerShell scope variables dynamically and the within-word functions use the same table
    // names as the completion function that calls them: a table the generic matcher reads and the
    // within-word function does not declare is the caller's table
    if shell == "bash" || shell == "pwsh" {
        let generic_body: String = {
            let header = if shell == "bash" { format!("\n{generic_sub} () {{\n") } else { format!("\nfunction {generic_sub} {{\n") };
            match script.find(&header) {
                Some(i) => {
                    let rest = &script[i + header.len()..];
                    rest[..rest.find("\n}\n").unwrap_or(rest.len())].to_string()
                }
                None => String::new(),
            }
        };
        let main = s.main.clone();
        for (id, declared) in &pending_scope {
            let Some(t) = s.subwords.get_mut(id) else { continue };
            if generic_body.contains("command_transitions") && !declared.contains("command_transitions") {
                t.cmd = main.cmd.clone();
            }
            if generic_body.contains("star_transitions") && !declared.contains("star_transitions") {
                t.star = main.star.clone();
            }
            if generic_body.contains("commands_level_") {
                let top = t.max_level.unwrap_or(0);
                for l in 0..=top {
                    if !declared.contains(&format!("commands_level_{l}")) {
                        if let Some(m) = main.cmd_lv.get(l) {
                            while t.cmd_lv.len() <= l {
                                t.cmd_lv.push(BTreeMap::new());
                            }
                            t.cmd_lv[l] = m.clone();
                        }
                    }
                }
            }
        }
    }
    // the start state of the within-word matcher is a constant of the generic function
    if s.sub_start.is_none() {
        // find `subword_state=<n>` / `set subword_state <n>` / `$subword_state = <n>` textually
        for l in script.lines() {
            let t = l.trim();
            for p in ["local subword_state=", "declare subword_state=", "set subword_state ", "$subword_state = "] {
                if let Some(r) = t.strip_prefix(p) {
                    if let Ok(n) = r.trim().parse::<usize>() {
                        if s.sub_start.is_none() {
                            s.sub_start = Some((n - base.min(n)) as u32);
                        }
                    }
                }
            }
        }
    }
    s.registered_for = match shell {
        "bash" => top.iter().find_map(|l| l.strip_prefix("complete -o nospace -F ").and_then(|r| r.split_once(' ')).filter(|(f, _)| *f == format!("_{command}")).map(|(_, c)| c.to_string())),
        "fish" => top.iter().find_map(|l| {
            l.strip_prefix("complete --command ").and_then(|r| r.split_once(' ')).filter(|(_, rest)| rest.contains(&format!("\"(_{command})\""))).map(|(c, _)| c.to_string())
        }),
        "zsh" => {
            let compdef = script.lines().next().and_then(|l| l.strip_prefix("#compdef ")).map(|s| s.trim().to_string());
            let reg = script.lines().any(|l| l.trim() == format!("compdef _{command} {command}"));
            if reg {
                compdef
            } else {
                None
            }
        }
        _ => top.iter().find_map(|l| l.strip_prefix("Register-ArgumentCompleter -Native -CommandName '").and_then(|r| r.split_once('\'')).map(|(c, _)| c.to_string())),
    };
    Ok(s)
}
