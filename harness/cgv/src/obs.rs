//! Observation of complgen through its library API, called in the order src/main.rs calls it.

use crate::ast::*;
use complgen::check::ValidGrammar;
use complgen::dfa::{Inp, DFA};
use complgen::parse::{Expr, ExprId, Grammar, Shell, Statement};
use complgen::regex::{Regex, RegexInternPool};

pub const SHELLS: [&str; 4] = ["bash", "fish", "zsh", "pwsh"];

pub fn shell_of(name: &str) -> Shell {
    match name {
        "bash" => Shell::Bash,
        "fish" => Shell::Fish,
        "zsh" => Shell::Zsh,
        "pwsh" => Shell::Pwsh,
        _ => panic!("unknown shell {name}"),
    }
}

/// Convert a parsed complgen expression into the harness AST (spans ignored).
pub fn expr_to_ast(arena: &[Expr], id: ExprId) -> E {
    match &arena[id.0] {
        Expr::Terminal { term, descr, .. } => E::Lit { text: term.to_string(), descr: descr.map(|d| d.to_string()) },
        Expr::NontermRef { nonterm, .. } => E::Nt(nonterm.to_string()),
        Expr::Command { cmd, .. } => E::Cmd(cmd.to_string()),
        Expr::Sequence { children, .. } => E::Seq(children.iter().map(|c| expr_to_ast(arena, *c)).collect()),
        Expr::Alternative { children, .. } => E::Alt(children.iter().map(|c| expr_to_ast(arena, *c)).collect()),
        Expr::Fallback { children, .. } => E::Fb(children.iter().map(|c| expr_to_ast(arena, *c)).collect()),
        Expr::Optional { child, .. } => E::Opt(Box::new(expr_to_ast(arena, *child))),
        Expr::Many1 { child, .. } => E::Many(Box::new(expr_to_ast(arena, *child))),
        Expr::DistributiveDescription { child, descr, .. } => {
            E::Descr(Box::new(expr_to_ast(arena, *child)), descr.to_string())
        }
        Expr::Subword { root_id, .. } => match expr_to_ast(arena, *root_id) {
            E::Seq(v) => E::Word(v),
            other => E::Word(vec![other]),
        },
    }
}

pub fn grammar_to_ast(g: &Grammar) -> G {
    let mut stmts = vec![];
    for s in &g.statements {
        match s {
            Statement::CallVariant { name, expr, .. } => {
                stmts.push(Stmt::Call { name: name.to_string(), e: expr_to_ast(&g.arena, *expr) })
            }
            Statement::NonterminalDefinition(d) => {
                let (name, _, shell, rhs) = d.verif_parts();
                stmts.push(Stmt::Def {
                    name: name.to_string(),
                    shell: shell.map(|(s, _)| s.to_string()),
                    e: expr_to_ast(&g.arena, rhs),
                })
            }
        }
    }
    G { stmts }
}

pub fn err_kind(e: &complgen::Error) -> &'static str {
    use complgen::Error::*;
    match e {
        ParseError(_) => "ParseError",
        MissingCallVariants => "MissingCallVariants",
        InvalidCommandName(_) => "InvalidCommandName",
        VaryingCommandNames(_) => "VaryingCommandNames",
        NonterminalDefinitionsCycle(_) => "NonterminalDefinitionsCycle",
        DuplicateNonterminalDefinition(..) => "DuplicateNonterminalDefinition",
        UnknownShell(_) => "UnknownShell",
        NonCommandSpecialization(_) => "NonCommandSpecialization",
        UnboundedMatchable(..) => "UnboundedMatchable",
        ConflictingDescriptions(..) => "ConflictingDescriptions",
        SubwordSpaces(..) => "SubwordSpaces",
        AmbiguousDFA(..) => "AmbiguousDFA",
        FromUtf8Error(_) => "FromUtf8Error",
        FmtError(_) => "FmtError",
        IoError(_) => "IoError",
    }
}

pub struct Compiled {
    pub command: String,
    pub raw: DFA,
    pub min: DFA,
}

/// parse -> validate -> regex -> DFA (raw) -> minimize -> ambiguity check, as src/main.rs does.
pub fn compile(text: &str, shell: &str) -> Result<Compiled, (&'static str, &'static str)> {
    let g = Grammar::parse(text).map_err(|e| ("parse", err_kind(&e)))?;
    let v = ValidGrammar::from_grammar(g, shell_of(shell)).map_err(|e| ("validate", err_kind(&e)))?;
    let mut pool = RegexInternPool::default();
    let regex = Regex::from_valid_grammar(&v, &mut pool).map_err(|e| ("regex", err_kind(&e)))?;
    let raw = DFA::from_regex_raw(regex, &pool).map_err(|e| ("dfa", err_kind(&e)))?;
    let min = raw.clone().minimize();
    min.check_ambiguity_best_effort().map_err(|e| ("ambiguity", err_kind(&e)))?;
    Ok(Compiled { command: v.command.to_string(), raw, min })
}

pub fn emit(c: &Compiled, shell: &str) -> Result<String, String> {
    let mut buf: Vec<u8> = vec![];
    let r = match shell {
        "bash" => complgen::bash::write_completion_script(&mut buf, &c.command, &c.min),
        "fish" => complgen::fish::write_completion_script(&mut buf, &c.command, &c.min),
        "zsh" => complgen::zsh::write_completion_script(&mut buf, &c.command, &c.min),
        "pwsh" => complgen::pwsh::write_completion_script(&mut buf, &c.command, &c.min),
        _ => unreachable!(),
    };
    r.map_err(|e| format!("{e:?}"))?;
    String::from_utf8(buf).map_err(|e| format!("{e:?}"))
}

pub struct Outputs {
    pub script: String,
    pub dfa_dot: String,
    pub regex_dot: String,
    pub states: usize,
    pub subdfas: usize,
}

pub fn array_start(shell: &str) -> u32 {
    match shell {
        "bash" | "pwsh" => 0,
        _ => 1,
    }
}

/// everything `complgen --<shell> OUT IN --dfa F --regex G` writes, through the library, in main.rs's order
pub fn compile_outputs(text: &str, shell: &str) -> Result<Outputs, (&'static str, &'static str)> {
    let g = Grammar::parse(text).map_err(|e| ("parse", err_kind(&e)))?;
    let v = ValidGrammar::from_grammar(g, shell_of(shell)).map_err(|e| ("validate", err_kind(&e)))?;
    let mut pool = RegexInternPool::default();
    let regex = Regex::from_valid_grammar(&v, &mut pool).map_err(|e| ("regex", err_kind(&e)))?;
    let mut rd: Vec<u8> = vec![];
    regex.to_dot(&mut rd, &pool).map_err(|_| ("regex_dot", "IoError"))?;
    let raw = DFA::from_regex_raw(regex, &pool).map_err(|e| ("dfa", err_kind(&e)))?;
    let min = raw.minimize();
    let mut dd: Vec<u8> = vec![];
    min.to_dot(&mut dd, array_start(shell)).map_err(|e| ("dfa_dot", err_kind(&e)))?;
    min.check_ambiguity_best_effort().map_err(|e| ("ambiguity", err_kind(&e)))?;
    let mut states: std::collections::BTreeSet<u32> = std::collections::BTreeSet::new();
    states.insert(min.starting_state);
    let mut subs: std::collections::BTreeSet<String> = std::collections::BTreeSet::new();
    for (f, tos) in &min.transitions {
        states.insert(*f);
        for (i, t) in tos {
            states.insert(*t);
            if let Inp::Subword { subdfa, .. } = min.verif_input(*i) {
                subs.insert(format!("{:?}", subdfa));
            }
        }
    }
    let c = Compiled { command: v.command.to_string(), raw: min.clone(), min };
    let script = emit(&c, shell).map_err(|_| ("emit", "FmtError"))?;
    Ok(Outputs {
        script,
        dfa_dot: String::from_utf8_lossy(&dd).to_string(),
        regex_dot: String::from_utf8_lossy(&rd).to_string(),
        states: states.len(),
        subdfas: subs.len(),
    })
}

pub fn inp_of(d: &DFA, id: complgen::dfa::InpId) -> &Inp {
    d.verif_input(id)
}

// ---------------------------------------------------------------------------------------------
// Views of complgen's automata in the harness's own terms

use crate::automata::{Nfa, Pdfa};
use crate::model::{builtin_marker, classify_builtin, Ldfa, Sym};
use std::collections::{BTreeMap, HashMap};

pub struct View {
    /// index -> complgen state id
    pub states: Vec<u32>,
    /// the automaton with complgen's own symbols (index of the interned input) — structure checks
    pub structure: Pdfa<u32>,
    /// complgen input per structure symbol
    pub inputs: Vec<Inp>,
    /// the automaton over harness symbols (may be nondeterministic when two inputs denote one symbol)
    pub nfa: Nfa<Sym>,
    pub sym_of_input: Vec<Sym>,
    /// canonical string -> within-word automaton (harness symbols, minimised)
    pub words: BTreeMap<String, Ldfa>,
    /// per structure symbol that is a within-word automaton: its own view
    pub subviews: BTreeMap<u32, View>,
}

pub fn view(d: &DFA, shell: &str) -> View {
    let mut states: Vec<u32> = vec![];
    let mut idx: HashMap<u32, usize> = HashMap::new();
    let add = |s: u32, states: &mut Vec<u32>, idx: &mut HashMap<u32, usize>| -> usize {
        if let Some(i) = idx.get(&s) {
            return *i;
        }
        states.push(s);
        idx.insert(s, states.len() - 1);
        states.len() - 1
    };
    add(d.starting_state, &mut states, &mut idx);
    for (from, tos) in &d.transitions {
        add(*from, &mut states, &mut idx);
        for (_, to) in tos {
            add(*to, &mut states, &mut idx);
        }
    }
    for a in d.accepting_states.iter() {
        add(a, &mut states, &mut idx);
    }
    let n = states.len();
    let mut inp_index: HashMap<complgen::dfa::InpId, u32> = HashMap::new();
    let mut inputs: Vec<Inp> = vec![];
    let mut sym_of_input: Vec<Sym> = vec![];
    let mut words: BTreeMap<String, Ldfa> = BTreeMap::new();
    let mut subviews: BTreeMap<u32, View> = BTreeMap::new();
    let mut structure: Pdfa<u32> = Pdfa { start: 0, accept: vec![false; n], trans: vec![BTreeMap::new(); n] };
    let mut nfa: Nfa<Sym> = Nfa::new();
    for _ in 0..n {
        nfa.add_state();
    }
    nfa.start = 0;
    for (i, s) in states.iter().enumerate() {
        if d.accepting_states.contains(*s) {
            structure.accept[i] = true;
            nfa.accept.insert(i);
        }
    }
    for (from, tos) in &d.transitions {
        let fi = idx[from];
        for (inp_id, to) in tos {
            let ti = idx[to];
            let k = match inp_index.get(inp_id) {
                Some(k) => *k,
                None => {
                    let k = inputs.len() as u32;
                    inp_index.insert(*inp_id, k);
                    let inp = d.verif_input(*inp_id).clone();
                    let sym = match &inp {
                        Inp::Literal { literal, description, fallback_level } => Sym::Lit {
                            text: literal.to_string(),
                            descr: description.map(|x| x.to_string()),
                            level: *fallback_level,
                        },
                        Inp::Command { cmd, fallback_level } | Inp::Compadd { cmd, fallback_level } => {
                            let compadd = matches!(inp, Inp::Compadd { .. });
                            let text = match classify_builtin(shell, cmd) {
                                Some(b) => builtin_marker(b),
                                None => cmd.to_string(),
                            };
                            Sym::Cmd { text, level: *fallback_level, compadd }
                        }
                        Inp::Star => Sym::Any,
                        Inp::Subword { subdfa, fallback_level } => {
                            let sub = d.subdfas.verif_lookup(*subdfa);
                            let sv = view(sub, shell);
                            let m = sv.nfa.determinize().minimize();
                            let canon = m.canon();
                            words.insert(canon.clone(), m);
                            for (c, w) in &sv.words {
                                words.insert(c.clone(), w.clone());
                            }
                            subviews.insert(k, sv);
                            Sym::Word { canon, level: *fallback_level }
                        }
                    };
                    inputs.push(inp);
                    sym_of_input.push(sym);
                    k
                }
            };
            structure.trans[fi].insert(k, ti);
            nfa.add_edge(fi, sym_of_input[k as usize].clone(), ti);
        }
    }
    View { states, structure, inputs, nfa, sym_of_input, words, subviews }
}

/// Region of C09's known finding: a state expects two within-word automata that complgen keeps apart
/// although they accept exactly the same words (the same alternatives written in a different order).
/// Counted by the checks that compare against the reference semantics, reported by C09.
pub static TWIN_REGION_EXCLUDED: std::sync::atomic::AtomicU64 = std::sync::atomic::AtomicU64::new(0);

pub fn equal_language_twin_words(v: &View) -> bool {
    use crate::model::erase_labels;
    for row in &v.structure.trans {
        let subs: Vec<u32> = row.keys().copied().filter(|k| matches!(v.inputs[*k as usize], Inp::Subword { .. })).collect();
        if subs.len() < 2 {
            continue;
        }
        let mut seen: BTreeMap<String, String> = BTreeMap::new();
        for k in subs {
            let Inp::Subword { subdfa, .. } = &v.inputs[k as usize] else { continue };
            let id = format!("{:?}", subdfa);
            let Some(sv) = v.subviews.get(&k) else { continue };
            let words = erase_labels(&sv.nfa.determinize()).canon();
            if let Some(prev) = seen.get(&words) {
                if *prev != id {
                    return true;
                }
            } else {
                seen.insert(words, id);
            }
        }
    }
    false
}
