//! Printer G -> .usage text (DESIGN.md Appendix A).  Records the byte offset of every token it emits.

use crate::ast::*;
use crate::src::Src;

#[derive(Clone, Debug, PartialEq, Eq)]
pub enum MarkKind {
    StmtStart(usize),
    CallName(String),
    DefLhs { name: String, shell: Option<String> },
    DefShell(String),
    /// first character of a definition's right-hand side
    RhsStart,
    NtRef(String),
    Lit(String),
    Cmd(String),
}

#[derive(Clone, Debug)]
pub struct Mark {
    pub kind: MarkKind,
    pub off: usize,
    /// index of the statement the token belongs to
    pub stmt: usize,
}

#[derive(Clone, Debug, Default)]
pub struct Printed {
    pub text: String,
    pub marks: Vec<Mark>,
    /// number of boundaries where a non-minimal layout was chosen
    pub layout_choices: usize,
}

impl Printed {
    /// 1-based line, 1-based byte column, 1-based char column
    pub fn linecol(&self, off: usize) -> (usize, usize, usize) {
        linecol(&self.text, off)
    }
}

pub fn linecol(text: &str, off: usize) -> (usize, usize, usize) {
    let before = &text[..off];
    let line = before.bytes().filter(|b| *b == b'\n').count() + 1;
    let ls = before.rfind('\n').map(|i| i + 1).unwrap_or(0);
    let colb = off - ls + 1;
    let colc = text[ls..off].chars().count() + 1;
    (line, colb, colc)
}

/// Layout / spelling choices.  With an empty stream every choice is the minimal one.
pub struct Style<'a> {
    pub src: Src<'a>,
    /// probability (out of 8) that an optional-blank position gets a blank
    pub blank_weight: usize,
    pub allow_comments: bool,
    pub allow_newlines: bool,
    pub allow_redundant_parens: bool,
    pub allow_descr_continuation: bool,
    pub vary_assign: bool,
}

impl<'a> Style<'a> {
    pub fn minimal() -> Style<'static> {
        Style {
            src: Src::new(&[]),
            blank_weight: 0,
            allow_comments: false,
            allow_newlines: false,
            allow_redundant_parens: false,
            allow_descr_continuation: false,
            vary_assign: false,
        }
    }
    pub fn random(data: &'a [u8]) -> Style<'a> {
        Style {
            src: Src::new(data),
            blank_weight: 3,
            allow_comments: true,
            allow_newlines: true,
            allow_redundant_parens: false,
            allow_descr_continuation: false,
            vary_assign: true,
        }
    }
}

const COMMENTS: &[&str] = &[
    "# c",
    "#",
    "# <X> = a | b; \"q\" ...",
    "# caf\u{e9} \u{4e16}\u{754c}",
    "#;;;",
    "# {{{ x }}} \\",
];

struct P<'a, 's> {
    out: String,
    marks: Vec<Mark>,
    st: &'s mut Style<'a>,
    ends_raw_dot: bool,
    stmt: usize,
    layout_choices: usize,
}

impl<'a, 's> P<'a, 's> {
    fn emit(&mut self, s: &str) {
        if !s.is_empty() {
            self.out.push_str(s);
            self.ends_raw_dot = false;
        }
    }
    fn mark(&mut self, kind: MarkKind) {
        self.marks.push(Mark { kind, off: self.out.len(), stmt: self.stmt });
    }
    fn last_is_blank(&self) -> bool {
        match self.out.chars().last() {
            None => true,
            Some(c) => c == ' ' || c == '\t' || c == '\n' || c == '\r' || c == '\u{c}',
        }
    }

    fn blank_run(&mut self, at_least_one: bool) -> String {
        let mut s = String::new();
        let want = if at_least_one { true } else { self.st.src.chance(self.st.blank_weight, 8) };
        if !want {
            return s;
        }
        let n = 1 + if self.st.blank_weight == 0 { 0 } else { self.st.src.weighted(&[10, 4, 2, 1]) };
        for i in 0..n {
            let mut k = self.st.src.weighted(&[12, 2, 5, 1, 1, 3, 1]);
            if !self.st.allow_newlines && (k == 2 || k == 3 || k == 6) {
                k = 0;
            }
            if !self.st.allow_comments && k == 5 {
                k = 0;
            }
            match k {
                0 => s.push(' '),
                1 => s.push('\t'),
                2 => s.push('\n'),
                3 => s.push_str("\r\n"),
                4 => s.push('\u{c}'),
                5 => {
                    // a comment needs a preceding blank character (or start of file)
                    let prev_blank = if i == 0 && s.is_empty() { self.last_is_blank() } else { true };
                    if !prev_blank {
                        s.push(' ');
                    }
                    let c = *self.st.src.pick(COMMENTS);
                    s.push_str(c);
                    s.push('\n');
                }
                _ => s.push_str("\n\n"),
            }
        }
        if s != " " {
            self.layout_choices += 1;
        }
        s
    }

    fn ws0(&mut self) {
        let s = self.blank_run(false);
        self.emit(&s);
    }
    fn ws1(&mut self) {
        let s = self.blank_run(true);
        self.emit(&s);
    }

    fn literal_text(&mut self, text: &str) {
        let mut run = 0usize;
        let mut s = String::new();
        for c in text.chars() {
            match c {
                '(' | ')' | '[' | ']' | '<' | '>' | '|' | ';' | '"' | '{' | '}' | '\\' => {
                    s.push('\\');
                    s.push(c);
                    run = 0;
                }
                '.' => {
                    let esc = run >= 2 || self.st.src.chance(2, 8);
                    if esc {
                        s.push_str("\\.");
                        run = 0;
                    } else {
                        s.push('.');
                        run += 1;
                    }
                }
                _ => {
                    s.push(c);
                    run = 0;
                }
            }
        }
        self.emit(&s);
        self.ends_raw_dot = run > 0;
    }

    fn description(&mut self, d: &str) {
        let mut s = String::from("\"");
        let chars: Vec<char> = d.chars().collect();
        for (i, c) in chars.iter().enumerate() {
            if self.st.allow_descr_continuation && !matches!(c, ' ' | '\t' | '\r' | '\n') && self.st.src.chance(1, 16) {
                // backslash + whitespace inside a description is a continuation that denotes nothing
                s.push('\\');
                s.push_str(*self.st.src.pick(&["\n", " ", "\n    ", "\t"]));
                self.layout_choices += 1;
            }
            match c {
                '"' => s.push_str("\\\""),
                '\\' => s.push_str("\\\\"),
                _ => s.push(*c),
            }
            let _ = i;
        }
        s.push('"');
        self.emit(&s);
    }

    // precedence levels of contexts: 0 top/fallback operand list, 1 operand of ||, 2 operand of |,
    // 3 sequence item, 4 child of a group description, 5 word piece, 6 operand of postfix ...
    fn level_of(e: &E) -> u8 {
        match e {
            E::Fb(_) => 0,
            E::Alt(_) => 1,
            E::Seq(_) => 2,
            E::Descr(..) => 3,
            E::Word(_) => 4,
            E::Many(_) => 5,
            E::Lit { .. } | E::Nt(_) | E::Cmd(_) | E::Opt(_) => 6,
        }
    }

    fn expr(&mut self, e: &E, ctx: u8, in_word: bool) {
        let mut need_parens = Self::level_of(e) < ctx;
        // a bare literal directly under a group description would take the description as its own
        if ctx == 4 {
            if let E::Lit { .. } = e {
                need_parens = true;
            }
            if let E::Word(ps) = e {
                if let Some(E::Lit { descr: None, .. }) = ps.last() {
                    need_parens = true;
                }
            }
        }
        if !need_parens && ctx <= 3 && !in_word && self.st.allow_redundant_parens && self.st.src.chance(1, 6) {
            need_parens = true;
            self.layout_choices += 1;
        }
        if need_parens {
            self.emit("(");
            self.ws0();
            self.expr(e, 0, in_word);
            self.ws0();
            self.emit(")");
            return;
        }
        match e {
            E::Lit { text, descr } => {
                self.mark(MarkKind::Lit(text.clone()));
                self.literal_text(text);
                if let Some(d) = descr {
                    self.ws0();
                    self.description(d);
                }
            }
            E::Nt(n) => {
                self.mark(MarkKind::NtRef(n.clone()));
                self.emit(&format!("<{}>", n));
            }
            E::Cmd(c) => {
                self.mark(MarkKind::Cmd(c.clone()));
                let l = if self.st.blank_weight > 0 { *self.st.src.pick(&[" ", "  ", "\n  ", " \t"]) } else { " " };
                let r = if self.st.blank_weight > 0 { *self.st.src.pick(&[" ", "  ", "\n", "\t "]) } else { " " };
                if c.is_empty() {
                    self.emit(&format!("{{{{{{{}}}}}}}", l));
                } else {
                    self.emit(&format!("{{{{{{{}{}{}}}}}}}", l, c, r));
                }
            }
            E::Opt(x) => {
                self.emit("[");
                self.ws0();
                self.expr(x, 0, in_word);
                self.ws0();
                self.emit("]");
            }
            E::Many(x) => {
                self.expr(x, 6, in_word);
                let raw_dot = self.ends_raw_dot;
                let mut s = self.blank_run(false);
                if raw_dot && s.is_empty() {
                    s.push(' ');
                }
                self.emit(&s);
                self.emit("...");
            }
            E::Word(ps) => {
                let mut prev_ends_lit = false;
                for (i, p) in ps.iter().enumerate() {
                    let starts_lit = match p {
                        E::Lit { .. } => true,
                        E::Many(x) => matches!(**x, E::Lit { .. }),
                        _ => false,
                    };
                    if i > 0 && prev_ends_lit && starts_lit {
                        self.emit("(");
                        self.expr(p, 0, true);
                        self.emit(")");
                        prev_ends_lit = false;
                    } else {
                        self.expr(p, 5, true);
                        prev_ends_lit = matches!(p, E::Lit { descr: None, .. });
                    }
                }
            }
            E::Descr(x, d) => {
                self.expr(x, 4, in_word);
                self.ws0();
                self.description(d);
            }
            E::Seq(v) => {
                for (i, x) in v.iter().enumerate() {
                    if i > 0 {
                        self.ws1();
                    }
                    self.expr(x, 3, in_word);
                }
            }
            E::Alt(v) => {
                for (i, x) in v.iter().enumerate() {
                    if i > 0 {
                        self.ws0();
                        self.emit("|");
                        self.ws0();
                    }
                    self.expr(x, 2, in_word);
                }
            }
            E::Fb(v) => {
                for (i, x) in v.iter().enumerate() {
                    if i > 0 {
                        self.ws0();
                        self.emit("||");
                        self.ws0();
                    }
                    self.expr(x, 1, in_word);
                }
            }
        }
    }
}

/// `order`: permutation of statement indices to print in (None = as is)
pub fn print_grammar(g: &G, st: &mut Style, order: Option<&[usize]>) -> Printed {
    let mut p = P { out: String::new(), marks: vec![], st, ends_raw_dot: false, stmt: 0, layout_choices: 0 };
    let idxs: Vec<usize> = match order {
        Some(o) => o.to_vec(),
        None => (0..g.stmts.len()).collect(),
    };
    p.ws0();
    let n = idxs.len();
    for (k, i) in idxs.iter().enumerate() {
        p.stmt = *i;
        p.mark(MarkKind::StmtStart(*i));
        match &g.stmts[*i] {
            Stmt::Call { name, e } => {
                p.mark(MarkKind::CallName(name.clone()));
                p.literal_text(name);
                p.ws1();
                p.expr(e, 0, false);
            }
            Stmt::Def { name, shell, e } => {
                p.mark(MarkKind::DefLhs { name: name.clone(), shell: shell.clone() });
                match shell {
                    Some(sh) => {
                        p.emit(&format!("<{}@", name));
                        p.mark(MarkKind::DefShell(sh.clone()));
                        p.emit(&format!("{}>", sh));
                    }
                    None => p.emit(&format!("<{}>", name)),
                }
                p.ws0();
                let a = if p.st.vary_assign && p.st.src.chance(1, 3) { "::=" } else { "=" };
                p.emit(a);
                p.ws0();
                p.mark(MarkKind::RhsStart);
                p.expr(e, 0, false);
            }
        }
        p.ws0();
        let last = k + 1 == n;
        if last && p.st.vary_assign && p.st.src.chance(1, 4) {
            // a final ';' is optional at end of input
            p.layout_choices += 1;
        } else {
            p.emit(";");
        }
        if !last {
            if p.st.blank_weight == 0 {
                p.emit("\n");
            } else {
                p.ws0();
            }
        } else {
            p.ws0();
        }
    }
    Printed { text: p.out, marks: p.marks, layout_choices: p.layout_choices }
}

pub fn print_minimal(g: &G) -> String {
    print_grammar(g, &mut Style::minimal(), None).text
}

pub fn print_expr_minimal(e: &E) -> String {
    let mut st = Style::minimal();
    let mut p = P { out: String::new(), marks: vec![], st: &mut st, ends_raw_dot: false, stmt: 0, layout_choices: 0 };
    p.expr(e, 0, false);
    p.out
}
