//! String-constant lexers for the four target shells, written from their documentation (DESIGN.md 2.7), and
//! recognisers for the statements in which the emitters embed literals and descriptions.

#[derive(Clone, Debug)]
pub struct Lexed {
    pub text: String,
    /// active expansions found inside the constant (each a violation of C07)
    pub active: Vec<String>,
    /// index just after the closing quote
    pub end: usize,
}

fn is_name_start(c: char) -> bool {
    c.is_ascii_alphabetic() || c == '_'
}

/// lex a double-quoted string starting at `chars[start] == '"'`
pub fn lex_dq(shell: &str, chars: &[char], start: usize) -> Result<Lexed, String> {
    if chars.get(start) != Some(&'"') {
        return Err(format!("expected an opening double quote at offset {start}"));
    }
    let mut i = start + 1;
    let mut text = String::new();
    let mut active = vec![];
    loop {
        let Some(&c) = chars.get(i) else { return Err("unterminated string constant (quote never closed)".into()) };
        match shell {
            "bash" | "zsh" => match c {
                '"' => return Ok(Lexed { text, active, end: i + 1 }),
                '\\' => match chars.get(i + 1) {
                    Some(&n) if n == '$' || n == '`' || n == '"' || n == '\\' => {
                        text.push(n);
                        i += 2;
                    }
                    Some(&'\n') => i += 2,
                    Some(_) => {
                        text.push('\\');
                        i += 1;
                    }
                    None => return Err("unterminated string constant".into()),
                },
                '`' => {
                    active.push("backtick command substitution".into());
                    text.push(c);
                    i += 1;
                }
                '$' => {
                    let n = chars.get(i + 1).copied().unwrap_or(' ');
                    if is_name_start(n) || n.is_ascii_digit() || "{([?!#*@$-".contains(n) {
                        active.push(format!("${n}… expansion"));
                    }
                    text.push(c);
                    i += 1;
                }
                _ => {
                    text.push(c);
                    i += 1;
                }
            },
            "fish" => match c {
                '"' => return Ok(Lexed { text, active, end: i + 1 }),
                '\\' => match chars.get(i + 1) {
                    Some(&n) if n == '"' || n == '$' || n == '\\' => {
                        text.push(n);
                        i += 2;
                    }
                    Some(&'\n') => i += 2,
                    Some(_) => {
                        text.push('\\');
                        i += 1;
                    }
                    None => return Err("unterminated string constant".into()),
                },
                '$' => {
                    active.push("$ expansion".into());
                    text.push(c);
                    i += 1;
                }
                _ => {
                    text.push(c);
                    i += 1;
                }
            },
            "pwsh" => match c {
                // PowerShell treats the curly double quotes as double quotes
                '"' | '\u{201C}' | '\u{201D}' | '\u{201E}' => {
                    if chars.get(i + 1) == Some(&'"') && c == '"' {
                        text.push('"');
                        i += 2;
                    } else if c != '"' {
                        return Err(format!("the constant is closed early by the curly quote U+{:04X}", c as u32));
                    } else {
                        return Ok(Lexed { text, active, end: i + 1 });
                    }
                }
                '`' => match chars.get(i + 1) {
                    Some(&n) => {
                        let d = match n {
                            'n' => '\n',
                            'r' => '\r',
                            't' => '\t',
                            '0' => '\0',
                            'a' => '\u{7}',
                            'b' => '\u{8}',
                            'e' => '\u{1b}',
                            'f' => '\u{c}',
                            'v' => '\u{b}',
                            other => other,
                        };
                        text.push(d);
                        i += 2;
                    }
                    None => return Err("unterminated string constant".into()),
                },
                '$' => {
                    let n = chars.get(i + 1).copied().unwrap_or(' ');
                    if is_name_start(n) || n == '(' || n == '{' || n == '$' || n == '?' || n == '^' {
                        active.push(format!("${n}… expansion"));
                    }
                    text.push(c);
                    i += 1;
                }
                _ => {
                    text.push(c);
                    i += 1;
                }
            },
            _ => return Err(format!("unknown shell {shell}")),
        }
    }
}

#[derive(Clone, Debug)]
pub struct Constants {
    /// one entry per literal array statement: (is within-word table, decoded elements)
    pub literal_arrays: Vec<(bool, Vec<Lexed>)>,
    /// decoded description constants
    pub descriptions: Vec<Lexed>,
}

fn starts_with_at(chars: &[char], i: usize, pat: &str) -> bool {
    let p: Vec<char> = pat.chars().collect();
    chars.len() >= i + p.len() && chars[i..i + p.len()] == p[..]
}

/// read the literal arrays and description constants a script embeds
pub fn read_constants(shell: &str, script: &str) -> Result<Constants, String> {
    let chars: Vec<char> = script.chars().collect();
    let mut out = Constants { literal_arrays: vec![], descriptions: vec![] };
    let mut i = 0;
    let at_line_start = |i: usize| -> bool {
        let mut j = i;
        while j > 0 && (chars[j - 1] == ' ' || chars[j - 1] == '\t') {
            j -= 1;
        }
        j == 0 || chars[j - 1] == '\n'
    };
    let line_of = |i: usize| chars[..i].iter().filter(|c| **c == '\n').count() + 1;
    while i < chars.len() {
        if !at_line_start(i) || chars[i] == ' ' || chars[i] == '\t' || chars[i] == '\n' {
            i += 1;
            continue;
        }
        // literal arrays
        let lit_heads: Vec<(&str, bool)> = match shell {
            "bash" => vec![("local -a literals=(", false)],
            "zsh" => vec![("declare -a literals=(", false), ("declare -a subword_literals=(", true)],
            "fish" => vec![("set literals ", false), ("set --global subword_literals ", true)],
            "pwsh" => vec![("$literals = @(", false)],
            _ => return Err("unknown shell".into()),
        };
        let mut matched = false;
        for (head, sub) in lit_heads {
            if starts_with_at(&chars, i, head) {
                let mut j = i + head.chars().count();
                let mut elems = vec![];
                loop {
                    match chars.get(j) {
                        Some('"') => {
                            let l = lex_dq(shell, &chars, j).map_err(|e| format!("line {}: literal array: {e}", line_of(j)))?;
                            j = l.end;
                            elems.push(l);
                        }
                        Some(' ') => j += 1,
                        Some(',') if shell == "pwsh" => j += 1,
                        Some(')') if shell != "fish" => {
                            j += 1;
                            break;
                        }
                        Some('\n') if shell == "fish" => break,
                        None if shell == "fish" => break,
                        other => return Err(format!("line {}: unexpected {:?} inside a literal array (a constant spilled over?)", line_of(j), other)),
                    }
                }
                // nothing else on the line
                if shell != "fish" && chars.get(j).map(|c| *c != '\n').unwrap_or(false) {
                    return Err(format!("line {}: text after the literal array: {:?}", line_of(j), chars[j..(j + 20).min(chars.len())].iter().collect::<String>()));
                }
                out.literal_arrays.push((sub, elems));
                i = j;
                matched = true;
                break;
            }
        }
        if matched {
            continue;
        }
        // descriptions
        let descr_heads: Vec<&str> = match shell {
            "fish" => vec!["set descrs[", "set --global subword_descrs["],
            "zsh" => vec!["descriptions[", "subword_descriptions["],
            _ => vec![],
        };
        for head in descr_heads {
            if starts_with_at(&chars, i, head) {
                let mut j = i + head.chars().count();
                while chars.get(j).map(|c| c.is_ascii_digit()).unwrap_or(false) {
                    j += 1;
                }
                let sep: &str = if shell == "fish" { "] " } else { "]=" };
                if !starts_with_at(&chars, j, sep) {
                    continue;
                }
                j += 2;
                let l = lex_dq(shell, &chars, j).map_err(|e| format!("line {}: description: {e}", line_of(j)))?;
                j = l.end;
                if chars.get(j).map(|c| *c != '\n').unwrap_or(false) {
                    return Err(format!("line {}: text after a description constant: {:?}", line_of(j), chars[j..(j + 20).min(chars.len())].iter().collect::<String>()));
                }
                out.descriptions.push(l);
                i = j;
                matched = true;
                break;
            }
        }
        if matched {
            continue;
        }
        if shell == "pwsh" && starts_with_at(&chars, i, "$descriptions = @{") {
            let mut j = i + "$descriptions = @{".len();
            loop {
                while chars.get(j).map(|c| c.is_whitespace()).unwrap_or(false) {
                    j += 1;
                }
                match chars.get(j) {
                    Some('}') => {
                        j += 1;
                        break;
                    }
                    Some(c) if c.is_ascii_digit() => {
                        while chars.get(j).map(|c| c.is_ascii_digit()).unwrap_or(false) {
                            j += 1;
                        }
                        if !starts_with_at(&chars, j, " = ") {
                            return Err(format!("line {}: malformed description table entry", line_of(j)));
                        }
                        j += 3;
                        let l = lex_dq(shell, &chars, j).map_err(|e| format!("line {}: description: {e}", line_of(j)))?;
                        j = l.end;
                        if chars.get(j) != Some(&';') {
                            return Err(format!("line {}: text after a description constant", line_of(j)));
                        }
                        j += 1;
                        out.descriptions.push(l);
                    }
                    other => return Err(format!("line {}: unexpected {:?} inside the description table (a constant spilled over?)", line_of(j), other)),
                }
            }
            i = j;
            continue;
        }
        // skip to the end of this line
        while i < chars.len() && chars[i] != '\n' {
            i += 1;
        }
    }
    Ok(out)
}
