//! Reader for the diagnostics complgen prints on stderr (`PATH:LINE:COL:kind: label` + snippet).

#[derive(Clone, Debug, PartialEq, Eq)]
pub struct Diag {
    pub line: usize,
    pub col: usize,
    /// "warning" or "error"
    pub kind: String,
    pub label: String,
    /// (line number shown, source line shown)
    pub snippet: Option<(usize, String)>,
    /// number of underline characters below the snippet
    pub underline: Option<(usize, usize)>,
}

/// located diagnostics in order of appearance; `path` is the input path as given on the command line
pub fn parse_stderr(stderr: &str, path: &str) -> Vec<Diag> {
    let mut out: Vec<Diag> = vec![];
    let lines: Vec<&str> = stderr.split('\n').collect();
    let mut i = 0;
    let prefix = format!("{path}:");
    while i < lines.len() {
        let l = lines[i];
        if let Some(rest) = l.strip_prefix(&prefix) {
            let mut it = rest.splitn(3, ':');
            let (a, b, c) = (it.next(), it.next(), it.next());
            if let (Some(a), Some(b), Some(c)) = (a, b, c) {
                if let (Ok(line), Ok(col)) = (a.parse::<usize>(), b.parse::<usize>()) {
                    let (kind, label) = match c.split_once(':') {
                        Some((k, lab)) => (k.trim().to_string(), lab.trim().to_string()),
                        None => (c.trim().to_string(), String::new()),
                    };
                    let mut d = Diag { line, col, kind, label, snippet: None, underline: None };
                    // snippet: "  |", "N | text", "  |   ^^^ what"
                    let mut j = i + 1;
                    while j < lines.len() && j <= i + 4 {
                        let t = lines[j];
                        if t.starts_with(&prefix) {
                            break;
                        }
                        if d.snippet.is_none() {
                            if let Some((num, text)) = t.split_once(" | ") {
                                if let Ok(n) = num.trim().parse::<usize>() {
                                    d.snippet = Some((n, text.to_string()));
                                    j += 1;
                                    continue;
                                }
                            }
                            // an empty source line is printed as "N |"
                            if let Some(num) = t.strip_suffix(" |") {
                                if let Ok(n) = num.trim().parse::<usize>() {
                                    d.snippet = Some((n, String::new()));
                                    j += 1;
                                    continue;
                                }
                            }
                        } else if d.underline.is_none() {
                            if let Some(pos) = t.find('|') {
                                let u = &t[pos + 1..];
                                let u = u.strip_prefix(' ').unwrap_or(u);
                                let start = u.chars().take_while(|c| *c == ' ').count();
                                let len = u.chars().skip(start).take_while(|c| *c == '^' || *c == '-').count();
                                if len > 0 {
                                    d.underline = Some((start, len));
                                }
                            }
                            break;
                        }
                        j += 1;
                    }
                    out.push(d);
                }
            }
        }
        i += 1;
    }
    out
}

/// does the snippet text show this source line?  (the renderer prefixes "/ " when the underlined span
/// continues on a later line)
pub fn shows_line(shown: &str, src: &str) -> bool {
    let a = shown.trim_end_matches('\r');
    let b = src.trim_end_matches('\r');
    a == b || a.strip_prefix("/ ") == Some(b)
}
