//! Word-level reference interpreter (DESIGN.md 2.5): what bash must show for a command line, computed from
//! the reference semantics of the grammar and the fixed outputs of its commands.

use crate::model::{Built, Ldfa, Sym};
use std::collections::{BTreeMap, BTreeSet};

/// command text -> candidates (text before the first tab of every output line)
pub type CmdOut = BTreeMap<String, Vec<String>>;

#[derive(Clone, Debug, PartialEq, Eq)]
pub enum Expect {
    /// the words before the cursor cannot be matched: nothing is offered
    Dead { at_word: usize },
    Candidates(BTreeSet<String>),
    /// outside C01's stated domain (a word has two readings of different kinds / labels)
    Ambiguous(String),
}

fn cands<'a>(cmds: &'a CmdOut, text: &str) -> &'a [String] {
    cmds.get(text).map(|v| v.as_slice()).unwrap_or(&[])
}

/// positions (state, chars consumed) reachable inside a within-word automaton by reading complete tokens of `w`
fn sub_positions(sub: &Ldfa, cmds: &CmdOut, w: &str) -> BTreeSet<(usize, usize)> {
    let mut seen: BTreeSet<(usize, usize)> = BTreeSet::new();
    let mut stack = vec![(sub.start, 0usize)];
    seen.insert((sub.start, 0));
    while let Some((q, i)) = stack.pop() {
        let rest = &w[i..];
        for (sym, r) in &sub.trans[q] {
            let mut nexts: Vec<usize> = vec![];
            match sym {
                Sym::Lit { text, .. } => {
                    if !text.is_empty() && rest.starts_with(text.as_str()) {
                        nexts.push(i + text.len());
                    }
                }
                Sym::Cmd { text, .. } => {
                    for c in cands(cmds, text) {
                        if !c.is_empty() && rest.starts_with(c.as_str()) {
                            nexts.push(i + c.len());
                        }
                    }
                }
                Sym::Any => {
                    // matches an arbitrary non-empty tail
                    if !rest.is_empty() {
                        nexts.push(w.len());
                    }
                }
                Sym::Word { .. } => {}
            }
            for j in nexts {
                if seen.insert((*r, j)) {
                    stack.push((*r, j));
                }
            }
        }
    }
    seen
}

pub fn word_reads(sub: &Ldfa, cmds: &CmdOut, w: &str) -> bool {
    sub_positions(sub, cmds, w).iter().any(|(q, i)| *i == w.len() && sub.accept[*q])
}

/// does `w` end inside the within-word automaton without reaching an accepting state (a truncated word)?
pub fn word_truncated(sub: &Ldfa, cmds: &CmdOut, w: &str) -> bool {
    !word_reads(sub, cmds, w) && sub_positions(sub, cmds, w).iter().any(|(_, i)| *i == w.len())
}

/// within-word continuations of the typed text `p`: (level, full candidate) for every position
pub fn word_continuations(sub: &Ldfa, cmds: &CmdOut, p: &str) -> Vec<(usize, String)> {
    let mut out = vec![];
    for (q, i) in sub_positions(sub, cmds, p) {
        let (m, rest) = p.split_at(i);
        for (sym, _) in &sub.trans[q] {
            match sym {
                Sym::Lit { text, level, .. } => {
                    if text.starts_with(rest) && text.len() > rest.len() {
                        out.push((*level, format!("{m}{text}")));
                    }
                }
                Sym::Cmd { text, level, .. } => {
                    for c in cands(cmds, text) {
                        if c.starts_with(rest) && c.len() > rest.len() {
                            out.push((*level, format!("{m}{c}")));
                        }
                    }
                }
                _ => {}
            }
        }
    }
    out
}

/// commands that are consulted when completing `p` inside the word: (cmd text, $1, $2)
pub fn word_command_calls(sub: &Ldfa, cmds: &CmdOut, p: &str) -> Vec<(String, String, String, usize)> {
    let mut out = vec![];
    for (q, i) in sub_positions(sub, cmds, p) {
        let (m, rest) = p.split_at(i);
        for (sym, _) in &sub.trans[q] {
            if let Sym::Cmd { text, level, .. } = sym {
                out.push((text.clone(), rest.to_string(), m.to_string(), *level));
            }
        }
    }
    out
}

pub struct Walk {
    pub state: Option<usize>,
    pub died_at: Option<usize>,
    pub ambiguous: Option<String>,
    /// states visited (before each word)
    pub trail: Vec<usize>,
}

/// symbols of state q that read the complete word w
pub fn readers<'a>(b: &'a Built, cmds: &CmdOut, q: usize, w: &str) -> Vec<(&'a Sym, usize)> {
    let mut v = vec![];
    for (sym, r) in &b.dfa.trans[q] {
        let reads = match sym {
            Sym::Lit { text, .. } => text == w,
            Sym::Cmd { text, .. } => cands(cmds, text).iter().any(|c| c == w),
            Sym::Any => true,
            Sym::Word { canon, .. } => b.words.get(canon).map(|s| word_reads(s, cmds, w)).unwrap_or(false),
        };
        if reads {
            v.push((sym, *r));
        }
    }
    v
}

pub fn walk(b: &Built, cmds: &CmdOut, words: &[String]) -> Walk {
    let mut q = b.dfa.start;
    let mut trail = vec![];
    for (k, w) in words.iter().enumerate() {
        trail.push(q);
        let rs = readers(b, cmds, q, w);
        // "a word equal to an expected literal is read as that literal"
        let lits: Vec<&(&Sym, usize)> = rs.iter().filter(|(s, _)| matches!(s, Sym::Lit { .. })).collect();
        let chosen: Vec<usize> = if !lits.is_empty() { lits.iter().map(|(_, r)| *r).collect() } else { rs.iter().map(|(_, r)| *r).collect() };
        let targets: BTreeSet<usize> = chosen.iter().copied().collect();
        if targets.is_empty() {
            return Walk { state: None, died_at: Some(k), ambiguous: None, trail };
        }
        if targets.len() > 1 {
            return Walk { state: None, died_at: None, ambiguous: Some(format!("word {:?} has several readings with different continuations", w)), trail };
        }
        q = *targets.iter().next().unwrap();
    }
    Walk { state: Some(q), died_at: None, ambiguous: None, trail }
}

/// candidates per level at state q for typed prefix p (before word-break stripping)
pub fn candidates_by_level(b: &Built, cmds: &CmdOut, q: usize, p: &str) -> BTreeMap<usize, BTreeSet<String>> {
    let mut by: BTreeMap<usize, BTreeSet<String>> = BTreeMap::new();
    for (sym, _) in &b.dfa.trans[q] {
        match sym {
            Sym::Lit { text, level, .. } => {
                let c = format!("{text} ");
                if c.starts_with(p) {
                    by.entry(*level).or_default().insert(c);
                }
            }
            Sym::Cmd { text, level, .. } => {
                for c in cands(cmds, text) {
                    if c.starts_with(p) {
                        by.entry(*level).or_default().insert(c.clone());
                    }
                }
            }
            Sym::Word { canon, level } => {
                if let Some(sub) = b.words.get(canon) {
                    let conts = word_continuations(sub, cmds, p);
                    // inside the word the first `||` level that has a candidate wins
                    if let Some(min) = conts.iter().map(|(l, _)| *l).min() {
                        for (l, c) in conts {
                            if l == min {
                                by.entry(*level).or_default().insert(c);
                            }
                        }
                    }
                }
            }
            Sym::Any => {}
        }
    }
    by
}

/// bash's own stripping: candidates lose the typed prefix up to and including its last word-break character
pub fn strip_wordbreaks(p: &str, wordbreaks: &str, c: &str) -> String {
    let cut = p.char_indices().filter(|(_, ch)| wordbreaks.contains(*ch)).map(|(i, ch)| i + ch.len_utf8()).max().unwrap_or(0);
    let pre = &p[..cut];
    c.strip_prefix(pre).unwrap_or(c).to_string()
}

pub fn expect(b: &Built, cmds: &CmdOut, words: &[String], cur: &str, wordbreaks: &str) -> Expect {
    let w = walk(b, cmds, words);
    if let Some(a) = w.ambiguous {
        return Expect::Ambiguous(a);
    }
    let Some(q) = w.state else { return Expect::Dead { at_word: w.died_at.unwrap_or(0) } };
    let by = candidates_by_level(b, cmds, q, cur);
    let first = by.into_iter().next().map(|(_, s)| s).unwrap_or_default();
    Expect::Candidates(first.into_iter().map(|c| strip_wordbreaks(cur, wordbreaks, &c)).collect())
}

/// does some complete word of the command line end inside a within-word automaton that is expected where
/// the word stands (the region of the known finding "truncated word accepted")?
pub fn truncated_region(b: &Built, cmds: &CmdOut, words: &[String]) -> bool {
    // follow every reading, including the truncated ones, as the emitted script would
    let mut states: BTreeSet<usize> = BTreeSet::from([b.dfa.start]);
    for w in words {
        let mut next = BTreeSet::new();
        for q in &states {
            for (sym, r) in &b.dfa.trans[*q] {
                if let Sym::Word { canon, .. } = sym {
                    if let Some(sub) = b.words.get(canon) {
                        if word_truncated(sub, cmds, w) {
                            return true;
                        }
                    }
                }
                let _ = r;
            }
            for (_, r) in readers(b, cmds, *q, w) {
                next.insert(r);
            }
        }
        states = next;
        if states.is_empty() {
            return false;
        }
    }
    false
}

/// C01's stated restriction on grammars: at no point (of the main automaton or of a within-word automaton)
/// is the same literal text expected with two different labels
pub fn same_literal_two_labels(b: &Built) -> bool {
    let check = |d: &Ldfa| -> bool {
        for row in &d.trans {
            let mut seen: BTreeMap<&str, usize> = BTreeMap::new();
            for (sym, _) in row {
                if let Sym::Lit { text, .. } = sym {
                    *seen.entry(text.as_str()).or_default() += 1;
                }
            }
            if seen.values().any(|n| *n > 1) {
                return true;
            }
        }
        false
    };
    check(&b.dfa) || b.words.values().any(check)
}

/// number of characters of `p` the within-word automaton can consume with complete tokens
pub fn max_matched_len(sub: &Ldfa, cmds: &CmdOut, p: &str) -> usize {
    sub_positions(sub, cmds, p).iter().map(|(_, i)| *i).max().unwrap_or(0)
}
