//! Readers for the emitted scripts (DESIGN.md 2.7).  They never share code with the emitters.

use std::collections::BTreeMap;

/// bodies of the `_<command>_cmd_<N>` functions of a script, keyed by N (as printed)
pub fn read_cmd_functions(shell: &str, command: &str, script: &str) -> Result<BTreeMap<usize, String>, String> {
    let mut out = BTreeMap::new();
    let lines: Vec<&str> = script.split('\n').collect();
    let prefix = match shell {
        "bash" | "zsh" => format!("_{command}_cmd_"),
        "fish" | "pwsh" => format!("function _{command}_cmd_"),
        _ => return Err(format!("unknown shell {shell}")),
    };
    let header_tail = match shell {
        "bash" | "zsh" => " () {",
        "fish" => "",
        _ => " {",
    };
    let closer = if shell == "fish" { "end" } else { "}" };
    let mut i = 0;
    while i < lines.len() {
        let l = lines[i];
        if let Some(rest) = l.strip_prefix(&prefix) {
            if let Some(num) = rest.strip_suffix(header_tail) {
                if let Ok(id) = num.parse::<usize>() {
                    // body: up to the first line equal to the closer that is followed by an empty line
                    let mut j = i + 1;
                    let mut body: Vec<&str> = vec![];
                    let mut closed = false;
                    while j < lines.len() {
                        if lines[j] == closer && lines.get(j + 1).map(|x| x.is_empty()).unwrap_or(true) {
                            closed = true;
                            break;
                        }
                        body.push(lines[j]);
                        j += 1;
                    }
                    if !closed {
                        return Err(format!("command function {id} is not closed"));
                    }
                    let text = body.join("\n");
                    let text = text.strip_prefix("    ").unwrap_or(&text).to_string();
                    if out.insert(id, text).is_some() {
                        return Err(format!("command function {id} defined twice"));
                    }
                    i = j + 1;
                    continue;
                }
            }
        }
        i += 1;
    }
    Ok(out)
}
