//! Choice stream: every structured generator in this crate is a *decoder* of a byte string.
//!
//! * an exhausted stream yields zeros, so every byte string decodes to a valid case;
//! * indices are mapped monotonically (`byte * n >> 8`), never with `%`, so lowering a byte
//!   lowers the choice and proptest's vector shrinking acts as a structure-preserving shrinker;
//! * choice 0 is always the simplest alternative of a decoder.

pub struct Src<'a> {
    data: &'a [u8],
    pos: usize,
}

impl<'a> Src<'a> {
    pub fn new(data: &'a [u8]) -> Self {
        Src { data, pos: 0 }
    }

    pub fn byte(&mut self) -> u8 {
        let b = self.data.get(self.pos).copied().unwrap_or(0);
        self.pos += 1;
        b
    }

    pub fn exhausted(&self) -> bool {
        self.pos >= self.data.len()
    }

    pub fn consumed(&self) -> usize {
        self.pos.min(self.data.len())
    }

    /// uniform-ish index in 0..n (n >= 1), monotone in the underlying bytes
    pub fn below(&mut self, n: usize) -> usize {
        if n <= 1 {
            return 0;
        }
        if n <= 256 {
            (self.byte() as usize * n) >> 8
        } else {
            let v = ((self.byte() as usize) << 8) | self.byte() as usize;
            (v * n) >> 16
        }
    }

    /// inclusive range
    pub fn range(&mut self, lo: usize, hi: usize) -> usize {
        debug_assert!(lo <= hi);
        lo + self.below(hi - lo + 1)
    }

    pub fn bool(&mut self) -> bool {
        self.byte() >= 128
    }

    /// true with probability num/den; false on an exhausted stream
    pub fn chance(&mut self, num: usize, den: usize) -> bool {
        let b = self.byte() as usize;
        b * den >= (den - num) * 256 && num > 0
    }

    pub fn pick<'b, T>(&mut self, xs: &'b [T]) -> &'b T {
        &xs[self.below(xs.len())]
    }

    /// weighted choice; weights need not be normalised; index 0 on exhausted stream
    pub fn weighted(&mut self, ws: &[usize]) -> usize {
        let total: usize = ws.iter().sum();
        if total == 0 {
            return 0;
        }
        let mut v = self.below(total);
        for (i, w) in ws.iter().enumerate() {
            if v < *w {
                return i;
            }
            v -= *w;
        }
        ws.len() - 1
    }
}

/// splitmix64, used only to derive shard seeds and hash cases for distinctness counting
pub fn mix64(mut z: u64) -> u64 {
    z = z.wrapping_add(0x9E3779B97F4A7C15);
    z = (z ^ (z >> 30)).wrapping_mul(0xBF58476D1CE4E5B9);
    z = (z ^ (z >> 27)).wrapping_mul(0x94D049BB133111EB);
    z ^ (z >> 31)
}

pub fn hash_str(s: &str) -> u64 {
    // FNV-1a 64 then mixed; stable across runs and platforms
    let mut h: u64 = 0xcbf29ce484222325;
    for b in s.as_bytes() {
        h ^= *b as u64;
        h = h.wrapping_mul(0x100000001b3);
    }
    mix64(h)
}
