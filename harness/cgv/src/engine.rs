//! Run driver: seeded proptest shards over the choice stream, exhaustive enumerations, statistics,
//! evidence files, replay files, known findings.

use crate::src::{hash_str, mix64};
use proptest::strategy::{Strategy, ValueTree};
use proptest::test_runner::{Config, RngAlgorithm, TestCaseError, TestError, TestRng, TestRunner};
use serde_json::{json, Value};
use std::collections::{BTreeMap, BTreeSet, HashSet};
use std::sync::atomic::{AtomicBool, Ordering};
use std::sync::Mutex;
use std::time::Instant;

#[derive(Clone, Copy, PartialEq, Eq, Debug)]
pub enum Tier {
    Quick,
    Thorough,
}

impl Tier {
    pub fn name(&self) -> &'static str {
        match self {
            Tier::Quick => "quick",
            Tier::Thorough => "thorough",
        }
    }
    pub fn pick<T>(&self, q: T, t: T) -> T {
        match self {
            Tier::Quick => q,
            Tier::Thorough => t,
        }
    }
}

/// What one evaluated case reports back.
#[derive(Default, Clone, Debug)]
pub struct Case {
    /// canonical rendering used for distinctness; counted only when `nontrivial`
    pub key: String,
    pub nontrivial: bool,
    pub classes: Vec<String>,
    /// number of oracle evaluations this case stands for (e.g. queries executed); at least 1
    pub evals: u64,
    /// extra distinct non-trivial keys (e.g. one per query)
    pub extra_keys: Vec<String>,
    pub sample: Option<Value>,
    /// known findings hit while judging this case: (finding id, what failed)
    pub known: Vec<(String, String)>,
    /// counters of things excluded / skipped inside the case
    pub excluded: Vec<(String, u64)>,
}

impl Case {
    pub fn new(key: impl Into<String>) -> Self {
        Case { key: key.into(), evals: 1, ..Default::default() }
    }
    pub fn class(&mut self, c: impl Into<String>) {
        self.classes.push(c.into());
    }
    pub fn exclude(&mut self, c: impl Into<String>, n: u64) {
        self.excluded.push((c.into(), n));
    }
}

#[derive(Clone, Debug)]
pub struct Failure {
    pub msg: String,
    pub detail: Value,
}

impl Failure {
    pub fn new(msg: impl Into<String>, detail: Value) -> Self {
        Failure { msg: msg.into(), detail }
    }
}

/// `Err` = the check itself could not run (exit 2), never a violation.
#[derive(Debug)]
pub struct Inconclusive(pub String);

pub enum Outcome {
    Pass(Case),
    /// case outside the property's domain (counted, not judged)
    Skip(String),
    Fail(Failure),
    Broken(String),
}

#[derive(Default)]
pub struct Stats {
    pub evaluations: u64,
    pub cases: u64,
    pub nontrivial: HashSet<u64>,
    pub classes: BTreeMap<String, u64>,
    pub excluded: BTreeMap<String, u64>,
    pub skipped: BTreeMap<String, u64>,
    pub samples: Vec<Value>,
    pub known: BTreeMap<String, String>,
    pub parts: Vec<Value>,
    pub samples_done: Vec<Value>,
}

impl Stats {
    fn absorb(&mut self, c: Case) {
        self.cases += 1;
        self.evaluations += c.evals.max(1);
        if c.nontrivial {
            self.nontrivial.insert(hash_str(&c.key));
        }
        for k in c.extra_keys {
            self.nontrivial.insert(hash_str(&k));
        }
        for cl in c.classes {
            *self.classes.entry(cl).or_default() += 1;
        }
        for (k, n) in c.excluded {
            *self.excluded.entry(k).or_default() += n;
        }
        if let Some(s) = c.sample {
            // keep a deterministic spread: first 4, then every 2^k-th
            let n = self.cases;
            if self.samples.len() < 4 || (n.is_power_of_two() && self.samples.len() < 12) {
                self.samples.push(s);
            }
        }
        for (id, what) in c.known {
            self.known.entry(id).or_insert(what);
        }
    }
    fn merge(&mut self, o: Stats) {
        self.evaluations += o.evaluations;
        self.cases += o.cases;
        self.nontrivial.extend(o.nontrivial);
        for (k, v) in o.classes {
            *self.classes.entry(k).or_default() += v;
        }
        for (k, v) in o.excluded {
            *self.excluded.entry(k).or_default() += v;
        }
        for (k, v) in o.skipped {
            *self.skipped.entry(k).or_default() += v;
        }
        for s in o.samples.into_iter().rev().take(2) {
            if self.samples.len() < 8 {
                self.samples.push(s);
            }
        }
        for (k, v) in o.known {
            self.known.entry(k).or_insert(v);
        }
    }
}

pub struct Violation {
    pub part: String,
    pub bytes: Option<Vec<u8>>,
    pub failure: Failure,
}

pub struct Run {
    pub prop: String,
    pub tier: Tier,
    pub seed: u64,
    pub level: &'static str,
    pub rule: String,
    pub stats: Stats,
    pub violations: Vec<Violation>,
    pub broken: Vec<String>,
    pub assumptions: Vec<String>,
    pub exhaustive_parts: Vec<String>,
    pub extra: BTreeMap<String, Value>,
    /// number of parallel shards for the next parts (process creation does not scale on this box:
    /// subprocess-heavy parts use few shards)
    pub shards: usize,
    pub shrink_iters: u32,
    start: Instant,
}

pub fn verif_dir() -> String {
    std::env::var("CGV_VERIF_DIR").unwrap_or_else(|_| "/verif".to_string())
}

pub fn nshards() -> usize {
    std::env::var("CGV_SHARDS").ok().and_then(|s| s.parse().ok()).unwrap_or(16)
}

impl Run {
    pub fn new(prop: &str, tier: Tier, seed: u64, level: &'static str, rule: &str) -> Run {
        Run {
            prop: prop.to_string(),
            tier,
            seed,
            level,
            rule: rule.to_string(),
            stats: Stats::default(),
            violations: vec![],
            broken: vec![],
            assumptions: vec![],
            exhaustive_parts: vec![],
            extra: BTreeMap::new(),
            shards: nshards(),
            shrink_iters: 4000,
            start: Instant::now(),
        }
    }

    pub fn failed(&self) -> bool {
        !self.violations.is_empty()
    }

    /// Random part: `cases` byte strings of length 0..=max_len split over the shards.
    pub fn random<F>(&mut self, part: &str, cases: u32, max_len: usize, f: F)
    where
        F: Fn(&[u8]) -> Outcome + Sync,
    {
        let t0 = Instant::now();
        let shards = self.shards.min(cases.max(1) as usize).max(1);
        let shrink_iters = self.shrink_iters;
        let per = (cases as usize + shards - 1) / shards;
        let part_seed = mix64(self.seed ^ hash_str(&format!("{}/{}", self.prop, part)));
        let results: Vec<(Stats, Option<(Vec<u8>, String)>, Vec<String>)> = {
            use rayon::prelude::*;
            (0..shards)
                .into_par_iter()
                .map(|shard| {
                    let mut seed = [0u8; 32];
                    let mut z = mix64(part_seed ^ (shard as u64).wrapping_mul(0x9E37));
                    for ch in seed.chunks_mut(8) {
                        z = mix64(z);
                        ch.copy_from_slice(&z.to_le_bytes());
                    }
                    let cfg = Config {
                        cases: per as u32,
                        failure_persistence: None,
                        max_shrink_iters: shrink_iters,
                        max_shrink_time: 0,
                        verbose: 0,
                        ..Config::default()
                    };
                    let mut runner = TestRunner::new_with_rng(cfg, TestRng::from_seed(RngAlgorithm::ChaCha, &seed));
                    let stats = Mutex::new(Stats::default());
                    let frozen = AtomicBool::new(false);
                    let broken: Mutex<Vec<String>> = Mutex::new(vec![]);
                    let strat = proptest::collection::vec(proptest::num::u8::ANY, 0..=max_len);
                    let r = runner.run(&strat, |bytes| match f(&bytes) {
                        Outcome::Pass(c) => {
                            if !frozen.load(Ordering::Relaxed) {
                                stats.lock().unwrap().absorb(c);
                            }
                            Ok(())
                        }
                        Outcome::Skip(why) => {
                            if !frozen.load(Ordering::Relaxed) {
                                let mut s = stats.lock().unwrap();
                                s.cases += 1;
                                *s.skipped.entry(why).or_default() += 1;
                            }
                            Ok(())
                        }
                        Outcome::Fail(fl) => {
                            frozen.store(true, Ordering::Relaxed);
                            Err(TestCaseError::fail(fl.msg))
                        }
                        Outcome::Broken(why) => {
                            // the check could not judge this case; not a violation, do not shrink towards it
                            broken.lock().unwrap().push(why);
                            Ok(())
                        }
                    });
                    let fail = match r {
                        Ok(()) => None,
                        Err(TestError::Fail(reason, v)) => Some((v, reason.message().to_string())),
                        Err(TestError::Abort(reason)) => {
                            broken.lock().unwrap().push(format!("proptest abort: {}", reason.message()));
                            None
                        }
                    };
                    (stats.into_inner().unwrap(), fail, broken.into_inner().unwrap())
                })
                .collect()
        };
        let mut n = 0;
        let mut best: Option<(Vec<u8>, Failure)> = None;
        let mut nfail = 0;
        for (st, fail, broken) in results {
            n += st.cases;
            self.stats.merge(st);
            for b in broken.into_iter().take(3) {
                self.broken.push(format!("{part}: {b}"));
            }
            if let Some((bytes, _reason)) = fail {
                nfail += 1;
                // re-evaluate the minimal input to obtain the structured failure
                // a failure that does not show on every evaluation of the same input (order of a randomly
                // seeded container inside complgen) is still a failure: try a few more times
                let mut again = f(&bytes);
                let mut tries = 1;
                while !matches!(again, Outcome::Fail(_)) && tries < 40 {
                    again = f(&bytes);
                    tries += 1;
                }
                match again {
                    Outcome::Fail(mut fl) => {
                        if tries > 1 {
                            fl.msg = format!("{} [not on every evaluation of this input: seen after {tries} tries]", fl.msg);
                        }
                        let size = |b: &Vec<u8>| (b.iter().filter(|x| **x != 0).count(), b.len());
                        if best.as_ref().map(|(b, _)| size(&bytes) < size(b)).unwrap_or(true) {
                            best = Some((bytes, fl));
                        }
                    }
                    _ => self.broken.push(format!("{part}: shrunk input did not reproduce (bytes {}; failure seen while shrinking: {})", hex(&bytes), _reason)),
                }
            }
        }
        if let Some((bytes, mut fl)) = best {
            // one violation per part: the smallest shrunk counterexample over all shards
            if let Value::Object(m) = &mut fl.detail {
                m.insert("shards_failing".into(), json!(nfail));
            }
            self.violations.push(Violation { part: part.to_string(), bytes: Some(bytes), failure: fl });
        }
        self.close_part_samples(part);
        self.stats.parts.push(json!({"part": part, "kind": "random", "cases": n, "max_len": max_len, "wall_s": t0.elapsed().as_secs_f64()}));
        if std::env::var("CGV_PROGRESS").is_ok() {
            eprintln!("  [{}] part {part}: {n} cases in {:.1}s", self.prop, t0.elapsed().as_secs_f64());
        }
    }

    /// Enumerated part (exhaustive over `items`, independent of the seed).
    pub fn enumerate<T, F>(&mut self, part: &str, items: Vec<T>, exhaustive: bool, f: F)
    where
        T: Sync,
        F: Fn(&T) -> Outcome + Sync,
    {
        use rayon::prelude::*;
        let t0 = Instant::now();
        let chunk = (items.len() / (self.shards * 8)).max(1);
        let results: Vec<(Stats, Option<(usize, Failure)>, Vec<String>)> = items
            .par_chunks(chunk)
            .enumerate()
            .map(|(ci, ch)| {
                let mut st = Stats::default();
                let mut fail = None;
                let mut broken = vec![];
                for (i, it) in ch.iter().enumerate() {
                    match f(it) {
                        Outcome::Pass(c) => st.absorb(c),
                        Outcome::Skip(w) => {
                            st.cases += 1;
                            *st.skipped.entry(w).or_default() += 1;
                        }
                        Outcome::Fail(fl) => {
                            fail = Some((ci * chunk + i, fl));
                            break;
                        }
                        Outcome::Broken(w) => broken.push(w),
                    }
                }
                (st, fail, broken)
            })
            .collect();
        let mut first: Option<(usize, Failure)> = None;
        let mut n = 0;
        for (st, fail, broken) in results {
            n += st.cases;
            self.stats.merge(st);
            for b in broken.into_iter().take(3) {
                self.broken.push(format!("{part}: {b}"));
            }
            if let Some((i, fl)) = fail {
                if first.as_ref().map(|(j, _)| i < *j).unwrap_or(true) {
                    first = Some((i, fl));
                }
            }
        }
        if let Some((_, fl)) = first {
            self.violations.push(Violation { part: part.to_string(), bytes: None, failure: fl });
        }
        if exhaustive {
            self.exhaustive_parts.push(part.to_string());
        }
        self.close_part_samples(part);
        self.stats.parts.push(json!({"part": part, "kind": if exhaustive {"exhaustive"} else {"enumerated"}, "cases": n, "wall_s": t0.elapsed().as_secs_f64()}));
        if std::env::var("CGV_PROGRESS").is_ok() {
            eprintln!("  [{}] part {part}: {n} cases in {:.1}s", self.prop, t0.elapsed().as_secs_f64());
        }
    }

    /// Coverage-guided part: a libFuzzer campaign (cargo-fuzz target built from harness/cgv/fuzz) that decodes
    /// its input with the same choice-stream decoder and judges it with the same oracle `f` as the random
    /// parts.  Fixed work (`runs` executions per job); a crash file is re-judged in this process and becomes
    /// an ordinary violation with a replay file; hangs / OOMs / a missing fuzz binary are notes, never
    /// violations.
    pub fn fuzz<F>(&mut self, part: &str, runs: u64, jobs: usize, max_len: usize, f: F)
    where
        F: Fn(&[u8]) -> Outcome,
    {
        let t0 = Instant::now();
        let bin = format!("{}/target/fuzz/x86_64-unknown-linux-gnu/release/fuzz_{}", verif_dir(), self.prop.to_lowercase());
        if !std::path::Path::new(&bin).exists() {
            eprintln!("note: libFuzzer target {bin} is not built; the coverage-guided part is skipped");
            self.stats.parts.push(json!({"part": part, "kind": "libfuzzer", "status": "target not built, part skipped"}));
            return;
        }
        let dir = std::env::temp_dir().join(format!("cgv-fuzz.{}.{}", std::process::id(), self.prop));
        let (corpus, art) = (dir.join("corpus"), dir.join("artifacts"));
        let _ = std::fs::create_dir_all(&corpus);
        let _ = std::fs::create_dir_all(&art);
        // seed corpus: a few byte strings derived from the seed (the decoders accept any bytes) + the empty one
        let _ = std::fs::write(corpus.join("empty"), b"");
        for k in 0..16u64 {
            let mut z = mix64(self.seed ^ hash_str(part) ^ k);
            let len = 40 + (k as usize * 37) % max_len.max(41).saturating_sub(40);
            let bytes: Vec<u8> = (0..len)
                .map(|_| {
                    z = mix64(z);
                    (z & 0xff) as u8
                })
                .collect();
            let _ = std::fs::write(corpus.join(format!("seed{k}")), bytes);
        }
        let out = std::process::Command::new(&bin)
            .current_dir(&dir)
            .arg(format!("-runs={runs}"))
            .arg(format!("-seed={}", (self.seed % 0x7fff_fffe) + 1))
            .arg("-len_control=0")
            .arg(format!("-max_len={max_len}"))
            .arg(format!("-artifact_prefix={}/", art.to_string_lossy()))
            .arg("-print_final_stats=1")
            .arg("-timeout=20")
            .arg(format!("-jobs={jobs}"))
            .arg(format!("-workers={jobs}"))
            .arg(corpus.to_string_lossy().to_string())
            .env("RUST_BACKTRACE", "0")
            .output();
        let mut executed: u64 = 0;
        if let Ok(rd) = std::fs::read_dir(&dir) {
            for e in rd.filter_map(|e| e.ok()) {
                let name = e.file_name().to_string_lossy().to_string();
                if name.starts_with("fuzz-") && name.ends_with(".log") {
                    if let Ok(t) = std::fs::read_to_string(e.path()) {
                        for l in t.lines() {
                            if let Some(n) = l.strip_prefix("stat::number_of_executed_units:") {
                                executed += n.trim().parse::<u64>().unwrap_or(0);
                            }
                        }
                    }
                }
            }
        }
        if let Ok(o) = &out {
            for l in String::from_utf8_lossy(&o.stderr).lines().chain(String::from_utf8_lossy(&o.stdout).lines()) {
                if let Some(n) = l.strip_prefix("stat::number_of_executed_units:") {
                    executed += n.trim().parse::<u64>().unwrap_or(0);
                }
            }
        }
        let mut crashes = 0;
        let mut notes: Vec<String> = vec![];
        let mut best: Option<(Vec<u8>, Failure)> = None;
        if let Ok(rd) = std::fs::read_dir(&art) {
            let mut files: Vec<std::path::PathBuf> = rd.filter_map(|e| e.ok()).map(|e| e.path()).collect();
            files.sort();
            for p in files {
                let name = p.file_name().map(|n| n.to_string_lossy().to_string()).unwrap_or_default();
                let Ok(bytes) = std::fs::read(&p) else { continue };
                if name.starts_with("crash-") {
                    crashes += 1;
                    match f(&bytes) {
                        Outcome::Fail(fl) => {
                            if best.as_ref().map(|(b, _)| bytes.len() < b.len()).unwrap_or(true) {
                                best = Some((bytes, fl));
                            }
                        }
                        _ => notes.push(format!("{part}: crash artifact {name} does not fail when re-judged in this process (bytes {})", hex(&bytes))),
                    }
                } else {
                    notes.push(format!("{part}: libFuzzer reported {name} (hang / memory): inconclusive"));
                }
            }
        }
        if let Some((bytes, fl)) = best {
            self.violations.push(Violation { part: part.to_string(), bytes: Some(bytes), failure: fl });
        }
        for n in notes.into_iter().take(3) {
            self.broken.push(n);
        }
        self.stats.evaluations += executed;
        self.stats.parts.push(json!({"part": part, "kind": "libfuzzer (coverage-guided, same decoder and oracle)", "executions": executed, "jobs": jobs, "runs_per_job": runs, "max_len": max_len, "crash_artifacts": crashes, "wall_s": t0.elapsed().as_secs_f64(), "exit_ok": out.map(|o| o.status.success()).unwrap_or(false)}));
        let _ = std::fs::remove_dir_all(&dir);
    }

    fn close_part_samples(&mut self, part: &str) {
        let ss = std::mem::take(&mut self.stats.samples);
        for s in ss.into_iter().take(6) {
            self.stats.samples_done.push(json!({"part": part, "case": s}));
        }
    }

    /// Finish: write evidence, replay files; print lines; return exit code.
    pub fn finish(mut self) -> i32 {
        let dir = verif_dir();
        let wall = self.start.elapsed().as_secs_f64();
        let mut code = 0;
        for (id, what) in &self.stats.known {
            println!("KNOWN-FINDING: property={} {} [{}]", self.prop, what, id);
        }
        let mut replay_paths = vec![];
        for v in &self.violations {
            let h = hash_str(&format!("{}{}{:?}", v.part, v.failure.msg, v.bytes));
            let rdir = std::env::var("CGV_EVIDENCE_DIR").map(|d| format!("{d}/replays")).unwrap_or_else(|_| format!("{}/replays", dir));
            let path = format!("{}/{}-{:016x}.json", rdir, self.prop, h);
            let _ = std::fs::create_dir_all(&rdir);
            let doc = json!({
                "property": self.prop,
                "part": v.part,
                "seed": self.seed,
                "bytes_hex": v.bytes.as_ref().map(|b| hex(b)),
                "message": v.failure.msg,
                "detail": v.failure.detail,
            });
            let _ = std::fs::write(&path, serde_json::to_string_pretty(&doc).unwrap());
            println!("VIOLATION property={} replay={}", self.prop, path);
            eprintln!("  {}: {}", v.part, v.failure.msg);
            replay_paths.push(path);
            code = 1;
        }
        if code == 0 && !self.broken.is_empty() {
            for b in self.broken.iter().take(10) {
                eprintln!("INCONCLUSIVE: {}", b);
            }
            code = 2;
        }
        let mut coverage = serde_json::Map::new();
        coverage.insert("evaluations".into(), json!(self.stats.evaluations));
        coverage.insert("distinct_nontrivial".into(), json!(self.stats.nontrivial.len()));
        coverage.insert("rule".into(), json!(self.rule));
        coverage.insert("samples".into(), json!(self.stats.samples_done));
        coverage.insert("cases".into(), json!(self.stats.cases));
        coverage.insert("classes".into(), json!(self.stats.classes));
        coverage.insert("excluded".into(), json!(self.stats.excluded));
        coverage.insert("skipped".into(), json!(self.stats.skipped));
        coverage.insert("parts".into(), json!(self.stats.parts));
        coverage.insert("known_findings_seen".into(), json!(self.stats.known));
        coverage.insert("exhaustive_parts".into(), json!(self.exhaustive_parts));
        if self.level == "translation_validation" {
            coverage.insert("programs".into(), json!(self.stats.cases));
            coverage.insert("disagreements_checked".into(), json!(self.stats.evaluations));
        }
        for (k, v) in std::mem::take(&mut self.extra) {
            coverage.insert(k, v);
        }
        let ev = json!({
            "property_id": self.prop,
            "tier": self.tier.name(),
            "seed": self.seed,
            "level": self.level,
            "coverage": Value::Object(coverage),
            "assumptions": self.assumptions,
            "wall_s": wall,
            "violations": self.violations.len(),
            "replays": replay_paths,
            "inconclusive": self.broken,
        });
        // CGV_EVIDENCE_DIR: used when the checks are pointed at a deliberately broken tree (seeded changes,
        // self-test), so that the committed evidence keeps describing the unchanged tree
        let edir = std::env::var("CGV_EVIDENCE_DIR").unwrap_or_else(|_| format!("{}/evidence", dir));
        let _ = std::fs::create_dir_all(&edir);
        let path = format!("{}/{}.json", edir, self.prop);
        if let Err(e) = std::fs::write(&path, serde_json::to_string_pretty(&ev).unwrap()) {
            eprintln!("cannot write evidence {path}: {e}");
            if code == 0 {
                code = 2;
            }
        }
        eprintln!(
            "[{}] tier={} seed={} cases={} evaluations={} distinct_nontrivial={} violations={} wall={:.1}s",
            self.prop,
            self.tier.name(),
            self.seed,
            self.stats.cases,
            self.stats.evaluations,
            self.stats.nontrivial.len(),
            self.violations.len(),
            wall
        );
        code
    }
}

pub fn hex(b: &[u8]) -> String {
    b.iter().map(|x| format!("{:02x}", x)).collect()
}

pub fn unhex(s: &str) -> Vec<u8> {
    (0..s.len() / 2).map(|i| u8::from_str_radix(&s[2 * i..2 * i + 2], 16).unwrap_or(0)).collect()
}

/// Known findings file (committed, never written at run time).
#[derive(Clone, Debug)]
pub struct Finding {
    pub id: String,
    pub property: String,
    pub status: String,
    pub what: String,
}

pub fn load_findings() -> Vec<Finding> {
    let path = format!("{}/known_findings.json", verif_dir());
    let Ok(txt) = std::fs::read_to_string(&path) else { return vec![] };
    let Ok(v) = serde_json::from_str::<Value>(&txt) else { return vec![] };
    let mut out = vec![];
    if let Some(arr) = v.get("findings").and_then(|a| a.as_array()) {
        for f in arr {
            out.push(Finding {
                id: f["id"].as_str().unwrap_or("").to_string(),
                property: f["property"].as_str().unwrap_or("").to_string(),
                status: f["status"].as_str().unwrap_or("").to_string(),
                what: f["what"].as_str().unwrap_or("").to_string(),
            });
        }
    }
    out
}

/// ids of findings with status "known" for a property
pub fn known_ids(prop: &str) -> BTreeSet<String> {
    load_findings().into_iter().filter(|f| f.status == "known" && f.property == prop).map(|f| f.id).collect()
}

pub fn finding_what(id: &str) -> String {
    load_findings().into_iter().find(|f| f.id == id).map(|f| f.what).unwrap_or_default()
}

// keep the ValueTree import used (proptest API surface differs between versions)
#[allow(dead_code)]
fn _api_check() {
    let mut r = TestRunner::deterministic();
    let t = proptest::num::u8::ANY.new_tree(&mut r).unwrap();
    let _ = t.current();
}

/// committed shrunk cases under regress/<ID>/*.json, sorted by file name
pub fn load_regress(prop: &str) -> Vec<Value> {
    let dir = format!("{}/regress/{}", verif_dir(), prop);
    let mut names: Vec<String> = match std::fs::read_dir(&dir) {
        Ok(rd) => rd.filter_map(|e| e.ok()).map(|e| e.path().to_string_lossy().to_string()).filter(|p| p.ends_with(".json")).collect(),
        Err(_) => vec![],
    };
    names.sort();
    names
        .into_iter()
        .filter_map(|p| std::fs::read_to_string(&p).ok().and_then(|t| serde_json::from_str::<Value>(&t).ok()).map(|mut v| {
            if let Value::Object(m) = &mut v {
                m.insert("file".into(), json!(p));
            }
            v
        }))
        .collect()
}
