//! Generator of grammars that are accepted by construction (DESIGN.md Appendix B).
//! Restrictions are constructive; nothing is rejection-sampled.

use crate::ast::*;
use crate::src::Src;
use std::collections::BTreeMap;

#[derive(Clone, Debug)]
pub struct Profile {
    pub max_depth: usize,
    pub max_nodes: usize,
    pub max_defs: usize,
    /// weights: lit, seq, alt, fb, opt, many, word, nt_defined, nt_undefined, cmd, spec_nt, group_descr
    pub w: [usize; 12],
    pub special_lits: bool,
    pub specs: bool,
    pub builtins: bool,
    pub multi_variant: bool,
    /// commands with fixed printable output (needed when scripts are executed)
    pub exec_cmds: bool,
    /// commands are probes that log their arguments (C17); implies exec_cmds
    pub probe_cmds: bool,
    /// literals inside one word are prefix-free and disjoint from command candidates (C01's domain)
    pub prefix_free_words: bool,
    /// never the same literal text twice in a grammar with different labels; distinct literals per Alt
    pub unique_points: bool,
    pub descriptions: bool,
    /// (min, extra) number of top-level literals drawn for the vocabulary
    pub vocab: (usize, usize),
}

impl Profile {
    /// few symbols, deep nesting, many optional / repeated / alternative items: maximises equivalent
    /// but distinct position sets in the direct construction (minimisation stress)
    pub fn dense() -> Profile {
        Profile {
            max_depth: 6,
            max_nodes: 70,
            max_defs: 2,
            w: [4, 6, 5, 1, 5, 3, 1, 2, 5, 1, 0, 0],
            special_lits: false,
            specs: false,
            builtins: false,
            multi_variant: true,
            exec_cmds: false,
            probe_cmds: false,
            prefix_free_words: false,
            unique_points: false,
            descriptions: false,
            vocab: (1, 2),
        }
    }

    pub fn general() -> Profile {
        Profile {
            max_depth: 5,
            max_nodes: 40,
            max_defs: 5,
            w: [6, 5, 5, 4, 3, 3, 5, 4, 2, 3, 2, 3],
            special_lits: false,
            specs: true,
            builtins: true,
            multi_variant: true,
            exec_cmds: false,
            probe_cmds: false,
            prefix_free_words: false,
            unique_points: false,
            descriptions: true,
            vocab: (3, 6),
        }
    }
}

#[derive(Clone, Debug)]
pub struct CmdSpec {
    pub text: String,
    /// output lines (candidate, optional description)
    pub lines: Vec<(String, Option<String>)>,
}

#[derive(Clone, Debug)]
pub struct Vocab {
    pub lits: Vec<String>,
    pub descr_of: BTreeMap<String, Option<String>>,
    pub word_lits: Vec<String>,
    pub cmds: Vec<CmdSpec>,
}

const DICT: &[&str] = &[
    "foo", "bar", "baz", "--help", "--verbose", "-v", "add", "commit", "x", "y", "ab", "abc", "quux", "--all", "-", "status", "log",
    "remote", "a", "b", "c", "--color", "push", "-n", "one", "two", "a:b:c", "k=v=w", "u@h:p",
];
const DICT_SPECIAL: &[&str] = &[
    "a$b", "`x`", "say\"hi\"", "back\\slash", "trail\\", "$HOME", "$(id)", "star*", "q?", "[a-z]", "~", "wh!", "a&b", "x;y", "{b}",
    "(p)", "a|b", "<lt>", "it's", "%d", "a#b", "...", "v1.2", "\\$x", "\\\\", "\\\"", "$", "`",
];
const WORD_PREFIXES: &[&str] = &["--color=", "--opt=", "-o", "k=", "--x=", ":", "p/", "+", "--kv=key=", "h:p:"];
const WORD_VALUES: &[&str] = &["always", "never", "auto", "on", "off", "1", "2", "red", "blue", "v", "w", ",", "%file", "x=y", "t:s"];
const DESCRS: &[&str] = &["d1", "d2", "the \"quoted\" one", "back\\slash descr", "d $x `y`"];

fn exec_cmd_pool() -> Vec<CmdSpec> {
    let mk = |text: &str, lines: &[(&str, Option<&str>)]| CmdSpec {
        text: text.to_string(),
        lines: lines.iter().map(|(a, b)| (a.to_string(), b.map(|x| x.to_string()))).collect(),
    };
    vec![
        mk("echo c_one; echo c_two", &[("c_one", None), ("c_two", None)]),
        mk("printf '%s\\n' k1 k2 k3", &[("k1", None), ("k2", None), ("k3", None)]),
        mk("printf 'm_a\\tdescr a\\nm_b\\tdescr b\\n'", &[("m_a", Some("descr a")), ("m_b", Some("descr b"))]),
        mk("echo zed", &[("zed", None)]),
        mk("true", &[]),
        mk("printf '%s\\n' u1 u22 u333", &[("u1", None), ("u22", None), ("u333", None)]),
    ]
}

pub fn probe_text(k: usize) -> String {
    format!("__cgv_probe {k} \"$@\"")
}

/// probes: log (id, argc, $1, $2) and print fixed lines, among them candidates with blanks, with
/// tab-separated descriptions, and an empty list
pub fn probe_cmd_pool() -> Vec<CmdSpec> {
    let mk = |k: usize, lines: &[(&str, Option<&str>)]| CmdSpec { text: probe_text(k), lines: lines.iter().map(|(a, b)| (a.to_string(), b.map(|x| x.to_string()))).collect() };
    vec![
        mk(0, &[("p0a", None), ("p0b", None)]),
        mk(1, &[("q1", Some("descr one")), ("q2x", Some("descr two"))]),
        mk(2, &[("two words", None), ("solo", None)]),
        mk(3, &[]),
        mk(4, &[("r4", None), ("s5x", None), ("t6 spaced out", Some("with descr"))]),
        mk(5, &[("u7", None)]),
    ]
}

fn plain_cmd_pool() -> Vec<CmdSpec> {
    let mk = |text: &str| CmdSpec { text: text.to_string(), lines: vec![] };
    vec![mk("c1"), mk("git tag"), mk("ls -1 | sort"), mk("echo \"$1\""), mk("c2 'x y' }"), mk("")]
}

pub struct Gen<'a, 's> {
    pub s: &'s mut Src<'a>,
    pub p: Profile,
    pub v: Vocab,
    pub budget: usize,
    /// definitions generated so far (index -> (name, word_safe))
    pub defs: Vec<(String, bool)>,
    /// number of definitions available for reference at the moment (those with index > current)
    pub avail_from: usize,
    pub spec_names: Vec<(String, bool)>, // (name, has plain command definition => closed for every shell)
    /// word-safe definitions whose body begins or ends with a literal: inside a word a reference to one of
    /// them counts as a literal (two literals are never adjacent in a word, also after expansion)
    pub edged: std::collections::BTreeSet<String>,
    /// words generated so far (twins: the same shape over a permutation of the same literals)
    pub prev_words: Vec<E>,
}

pub fn make_vocab(s: &mut Src, p: &Profile) -> Vocab {
    let n = p.vocab.0 + s.below(p.vocab.1);
    let mut lits: Vec<String> = vec![];
    for _ in 0..n {
        let special = p.special_lits && s.chance(1, 2);
        let t = if special { *s.pick(DICT_SPECIAL) } else { *s.pick(DICT) };
        if !lits.iter().any(|x| x == t) {
            lits.push(t.to_string());
        }
    }
    let mut word_lits: Vec<String> = vec![];
    let nw = 2 + s.below(5);
    for _ in 0..nw {
        let t = if p.special_lits && s.chance(1, 3) { *s.pick(DICT_SPECIAL) } else { *s.pick(WORD_VALUES) };
        if !word_lits.iter().any(|x| x == t) {
            word_lits.push(t.to_string());
        }
    }
    if p.prefix_free_words {
        // keep a prefix-free subset (also against the prefixes used to open a word)
        let mut keep: Vec<String> = vec![];
        for t in word_lits {
            if !keep.iter().any(|k| k.starts_with(&t) || t.starts_with(k.as_str())) {
                keep.push(t);
            }
        }
        word_lits = keep;
    }
    let mut descr_of = BTreeMap::new();
    for t in lits.iter().chain(word_lits.iter()).map(|x| x.as_str()).chain(WORD_PREFIXES.iter().copied()) {
        let d = if p.descriptions && s.chance(3, 8) { Some(s.pick(DESCRS).to_string()) } else { None };
        descr_of.entry(t.to_string()).or_insert(d);
    }
    let pool = if p.probe_cmds {
        probe_cmd_pool()
    } else if p.exec_cmds {
        exec_cmd_pool()
    } else {
        let mut v = plain_cmd_pool();
        if p.special_lits {
            // backslashes without a double quote, a trailing backslash, both at once
            for t in ["printf '%s\\n' a b", "echo \\", "sed 's/\\\\/\"/' f"] {
                v.push(CmdSpec { text: t.to_string(), lines: vec![] });
            }
        }
        v
    };
    let nc = 1 + s.below(3);
    let mut cmds: Vec<CmdSpec> = vec![];
    for _ in 0..nc {
        let c = s.pick(&pool).clone();
        if !cmds.iter().any(|x| x.text == c.text) {
            cmds.push(c);
        }
    }
    Vocab { lits, descr_of, word_lits, cmds }
}

impl<'a, 's> Gen<'a, 's> {
    fn lit(&mut self, t: &str) -> E {
        E::Lit { text: t.to_string(), descr: self.v.descr_of.get(t).cloned().flatten() }
    }
    fn top_lit(&mut self) -> E {
        let t = self.s.pick(&self.v.lits).clone();
        self.lit(&t)
    }
    fn word_lit(&mut self) -> E {
        let t = if self.v.word_lits.is_empty() { "v".to_string() } else { self.s.pick(&self.v.word_lits).clone() };
        self.lit(&t)
    }
    fn cmd(&mut self) -> E {
        let c = self.s.pick(&self.v.cmds).text.clone();
        E::Cmd(c)
    }
    fn undefined(&mut self) -> E {
        E::Nt(self.s.pick(&["U0", "_", "U1", "FILE"]).to_string())
    }
    fn spend(&mut self) -> bool {
        if self.budget == 0 {
            return false;
        }
        self.budget -= 1;
        true
    }

    fn defined_ref(&mut self, word_safe_only: bool) -> Option<E> {
        let cands: Vec<String> =
            self.defs.iter().enumerate().filter(|(i, (_, ws))| *i >= self.avail_from && (!word_safe_only || *ws)).map(|(_, (n, _))| n.clone()).collect();
        if cands.is_empty() {
            return None;
        }
        Some(E::Nt(self.s.pick(&cands).clone()))
    }

    fn spec_ref(&mut self, closed_only: bool) -> Option<E> {
        let cands: Vec<String> = self.spec_names.iter().filter(|(_, c)| !closed_only || *c).map(|(n, _)| n.clone()).collect();
        if cands.is_empty() {
            return None;
        }
        Some(E::Nt(self.s.pick(&cands).clone()))
    }

    /// expression at top level (outside any word)
    pub fn top(&mut self, depth: usize) -> E {
        if depth == 0 || !self.spend() {
            return self.top_lit();
        }
        let k = self.s.weighted(&self.p.w.clone());
        match k {
            0 => self.top_lit(),
            1 => {
                let n = 2 + self.s.weighted(&[5, 3, 1]);
                E::Seq((0..n).map(|_| self.top(depth - 1)).collect())
            }
            2 => {
                let n = 2 + self.s.weighted(&[5, 3, 1]);
                let mut v: Vec<E> = vec![];
                for _ in 0..n {
                    let c = self.top(depth - 1);
                    if self.p.unique_points && v.contains(&c) {
                        continue;
                    }
                    v.push(c);
                }
                if v.len() == 1 {
                    v.pop().unwrap()
                } else {
                    E::Alt(v)
                }
            }
            3 => {
                let n = 2 + self.s.weighted(&[5, 2]);
                E::Fb((0..n).map(|_| self.top(depth - 1)).collect())
            }
            4 => E::Opt(Box::new(self.top(depth - 1))),
            5 => E::Many(Box::new(self.top(depth - 1))),
            6 => self.word(depth - 1),
            7 => self.defined_ref(false).unwrap_or_else(|| self.top_lit()),
            8 => self.undefined(),
            9 => self.cmd(),
            10 => {
                if self.p.builtins && self.s.chance(1, 2) {
                    E::Nt(self.s.pick(&["PATH", "DIRECTORY"]).to_string())
                } else {
                    self.spec_ref(false).unwrap_or_else(|| self.cmd())
                }
            }
            _ => self.group_descr(depth - 1),
        }
    }

    /// a literal whose vocabulary description is `d`, printed without its own description (group head)
    fn head_for(&mut self, d: &str) -> Option<E> {
        let cands: Vec<String> =
            self.v.lits.iter().filter(|t| self.v.descr_of.get(*t).cloned().flatten().as_deref() == Some(d)).cloned().collect();
        if cands.is_empty() {
            return None;
        }
        Some(E::Lit { text: self.s.pick(&cands).clone(), descr: None })
    }

    /// `( ... ) "d"` on the shapes where the documented rule determines who gets the description
    fn group_descr(&mut self, depth: usize) -> E {
        let ds: Vec<String> = self.v.lits.iter().filter_map(|t| self.v.descr_of.get(t).cloned().flatten()).collect();
        if ds.is_empty() || !self.p.descriptions {
            return self.top_lit();
        }
        let d = self.s.pick(&ds).clone();
        let body = self.group_body(&d, depth, true);
        match body {
            Some(b) => E::Descr(Box::new(b), d),
            None => self.top_lit(),
        }
    }

    fn group_body(&mut self, d: &str, depth: usize, top: bool) -> Option<E> {
        let k = if depth == 0 { 0 } else { self.s.weighted(&[4, 3, 3, 2, 1, 1]) };
        match k {
            0 => self.head_for(d),
            1 => {
                // alternation: every alternative starts with a head
                if !top {
                    return self.head_for(d);
                }
                let n = 2 + self.s.below(2);
                let mut v = vec![];
                for _ in 0..n {
                    let c = self.group_body(d, depth - 1, true)?;
                    if !v.contains(&c) {
                        v.push(c);
                    }
                }
                if v.len() < 2 {
                    return v.pop();
                }
                Some(E::Alt(v))
            }
            2 => {
                // sequence: head first (strict), then anything
                let h = self.strict_head(d, depth - 1)?;
                let n = 1 + self.s.below(2);
                let mut v = vec![h];
                for _ in 0..n {
                    v.push(self.top(depth - 1));
                }
                Some(E::Seq(v))
            }
            3 => {
                let h = self.strict_head(d, depth - 1)?;
                Some(E::Many(Box::new(h)))
            }
            4 => {
                if !top {
                    return self.head_for(d);
                }
                let b = self.group_body(d, depth - 1, true)?;
                Some(E::Opt(Box::new(b)))
            }
            _ => {
                // a lone command / undefined placeholder: the description goes to nothing
                if !top {
                    return self.head_for(d);
                }
                Some(if self.s.bool() { self.cmd() } else { self.undefined() })
            }
        }
    }

    fn strict_head(&mut self, d: &str, depth: usize) -> Option<E> {
        if depth > 0 && self.s.chance(1, 4) {
            let h = self.head_for(d)?;
            return Some(E::Many(Box::new(h)));
        }
        self.head_for(d)
    }

    /// the same word shape over a permutation of its own literals (and alternatives rotated)
    fn twin(&mut self, w: &E) -> E {
        let mut texts: Vec<String> = vec![];
        w.walk(&mut |e| {
            if let E::Lit { text, .. } = e {
                if !texts.contains(text) {
                    texts.push(text.clone());
                }
            }
        });
        if texts.len() < 2 {
            return w.clone();
        }
        let rot = 1 + self.s.below(texts.len() - 1);
        let swap_only = self.s.bool();
        let map = |t: &str| -> String {
            let i = texts.iter().position(|x| x == t).unwrap();
            if swap_only {
                // swap two literals, keep the rest
                if i == 0 {
                    texts[rot].clone()
                } else if i == rot {
                    texts[0].clone()
                } else {
                    t.to_string()
                }
            } else {
                texts[(i + rot) % texts.len()].clone()
            }
        };
        fn go(e: &E, map: &dyn Fn(&str) -> String, descr_of: &BTreeMap<String, Option<String>>, rotate: bool) -> E {
            match e {
                E::Lit { text, .. } => {
                    let t = map(text);
                    let d = descr_of.get(&t).cloned().flatten();
                    E::Lit { text: t, descr: d }
                }
                E::Alt(v) if rotate && v.len() > 1 => {
                    let mut v2: Vec<E> = v.iter().map(|c| go(c, map, descr_of, rotate)).collect();
                    v2.rotate_left(1);
                    E::Alt(v2)
                }
                _ => e.map_children(&mut |c| go(c, map, descr_of, rotate)),
            }
        }
        let rotate = self.s.bool();
        let t = go(w, &map, &self.v.descr_of, rotate);
        if self.s.chance(1, 3) {
            // same automaton shape, but the alternatives are split over the || levels differently
            let cut = self.s.below(4);
            return resplit_levels(&t, cut);
        }
        t
    }

    /// the same word shape behind a different opening literal and with the commands exchanged: accepts
    /// no word the original accepts (stays inside C01's domain), but has the same table shape
    fn twin_disjoint(&mut self, w: &E) -> Option<E> {
        let E::Word(ps) = w else { return None };
        let E::Lit { text: opener, .. } = &ps[0] else { return None };
        let others: Vec<&str> = WORD_PREFIXES.iter().copied().filter(|o| !o.starts_with(opener.as_str()) && !opener.starts_with(o)).collect();
        if others.is_empty() {
            return None;
        }
        let new_opener = self.s.pick(&others).to_string();
        let cmds: Vec<String> = self.v.cmds.iter().map(|c| c.text.clone()).collect();
        let rot = if cmds.len() > 1 { 1 + self.s.below(cmds.len() - 1) } else { 0 };
        fn go(e: &E, cmds: &[String], rot: usize) -> E {
            match e {
                E::Cmd(t) => match cmds.iter().position(|c| c == t) {
                    Some(i) => E::Cmd(cmds[(i + rot) % cmds.len()].clone()),
                    None => e.clone(),
                },
                _ => e.map_children(&mut |c| go(c, cmds, rot)),
            }
        }
        let mut ps2: Vec<E> = ps[1..].iter().map(|p| go(p, &cmds, rot)).collect();
        if self.s.bool() {
            // same table shape, alternatives split over the || levels differently
            let cut = self.s.below(4);
            ps2 = ps2.iter().map(|p| resplit_levels(p, cut)).collect();
        }
        ps2.insert(0, self.lit(&new_opener));
        Some(E::Word(ps2))
    }

    /// one shell word made of >= 2 juxtaposed pieces
    pub fn word(&mut self, depth: usize) -> E {
        if !self.prev_words.is_empty() && self.s.chance(1, 4) {
            let w = self.s.pick(&self.prev_words).clone();
            if !self.p.unique_points {
                if self.s.chance(1, 3) {
                    // the very same word once more, one || level further down: same table shape, every
                    // item (commands and compadd-style commands included) on another level
                    let first = self.top_lit();
                    return E::Fb(vec![first, w]);
                }
                return self.twin(&w);
            }
            if let Some(t) = self.twin_disjoint(&w) {
                return t;
            }
        }
        let w = self.word_fresh(depth);
        if self.prev_words.len() < 4 {
            self.prev_words.push(w.clone());
        }
        w
    }

    fn word_fresh(&mut self, depth: usize) -> E {
        let n = 2 + self.s.weighted(&[6, 3, 1]);
        let mut pieces: Vec<E> = vec![];
        let opener = self.s.chance(3, 4);
        if opener {
            let t = *self.s.pick(WORD_PREFIXES);
            pieces.push(self.lit(t));
        }
        while pieces.len() < n {
            let last = pieces.len() + 1 == n;
            let prev_lit = pieces.last().map(|p| self.lit_like(p)).unwrap_or(false);
            let p = self.piece(depth, last, prev_lit);
            pieces.push(p);
        }
        E::Word(pieces)
    }

    /// a literal, or a reference to a definition that begins or ends with one
    pub fn lit_like(&self, e: &E) -> bool {
        match e {
            E::Lit { .. } => true,
            E::Nt(n) => self.edged.contains(n),
            _ => false,
        }
    }

    fn defined_ref_piece(&mut self, no_lit: bool) -> Option<E> {
        let cands: Vec<String> = self
            .defs
            .iter()
            .enumerate()
            .filter(|(i, (n, ws))| *i >= self.avail_from && *ws && !(no_lit && self.edged.contains(n)))
            .map(|(_, (n, _))| n.clone())
            .collect();
        if cands.is_empty() {
            return None;
        }
        Some(E::Nt(self.s.pick(&cands).clone()))
    }

    /// a piece of a word.  `open_ok`: may contain an any-word placeholder (only as last piece);
    /// `no_lit`: must not be a bare literal (the previous piece is one)
    fn piece(&mut self, depth: usize, open_ok: bool, no_lit: bool) -> E {
        let spent = self.spend();
        let k = if depth == 0 || !spent { if no_lit { 1 } else { 0 } } else { self.s.weighted(&[if no_lit { 0 } else { 5 }, 5, 2, 2, 3, 2, if open_ok { 4 } else { 0 }, 2]) };
        match k {
            0 => self.word_lit(),
            1 => {
                // alternation of closed things
                let n = 2 + self.s.weighted(&[5, 3, 1]);
                let mut v: Vec<E> = vec![];
                for i in 0..n {
                    let c = if depth > 0 && self.s.chance(1, 4) { self.closed_group(depth - 1) } else { self.word_lit() };
                    if v.contains(&c) {
                        continue;
                    }
                    v.push(c);
                    let _ = i;
                }
                if open_ok && self.s.chance(1, 4) {
                    v.push(self.undefined());
                }
                if v.len() == 1 {
                    let only = v.pop().unwrap();
                    // a bare literal after a literal, or a word directly nested as a piece, would put two
                    // literals next to each other in one sequence: keep them apart
                    if (no_lit && self.lit_like(&only)) || matches!(only, E::Word(_)) {
                        return E::Opt(Box::new(only));
                    }
                    return only;
                }
                E::Alt(v)
            }
            2 => {
                let c = self.closed_group(depth.saturating_sub(1));
                E::Opt(Box::new(c))
            }
            3 => {
                let c = self.closed_group(depth.saturating_sub(1));
                E::Many(Box::new(c))
            }
            4 => self.cmd(),
            5 => self.defined_ref_piece(no_lit).unwrap_or_else(|| self.cmd()),
            6 => {
                if self.s.chance(1, 3) {
                    self.spec_ref(false).unwrap_or_else(|| self.undefined())
                } else if self.s.chance(1, 3) {
                    E::Opt(Box::new(self.undefined()))
                } else {
                    self.undefined()
                }
            }
            _ => {
                if self.p.builtins && self.s.bool() {
                    E::Nt(self.s.pick(&["PATH", "DIRECTORY"]).to_string())
                } else {
                    self.spec_ref(true).unwrap_or_else(|| self.cmd())
                }
            }
        }
    }

    /// closed within-word expression: no any-word placeholder anywhere, no blank-separated sequence
    fn closed_group(&mut self, depth: usize) -> E {
        let spent = self.spend();
        let k = if depth == 0 || !spent { 0 } else { self.s.weighted(&[5, 4, 3, 2, 2, 2]) };
        match k {
            0 => self.word_lit(),
            1 => {
                let n = 2 + self.s.below(2);
                let mut v: Vec<E> = vec![];
                for _ in 0..n {
                    let c = if self.s.chance(1, 4) { self.closed_group(depth - 1) } else { self.word_lit() };
                    if !v.contains(&c) {
                        v.push(c);
                    }
                }
                if v.len() == 1 {
                    return v.pop().unwrap();
                }
                E::Alt(v)
            }
            2 => {
                // nested word: literal followed by a non-literal closed piece, or the reverse
                let a = self.word_lit();
                let inner = self.closed_group(depth - 1);
                let b = match inner {
                    // keep bare literals (and words, whose ends may be literals) apart from the literal `a`
                    E::Lit { .. } | E::Word(_) => E::Opt(Box::new(inner)),
                    E::Nt(ref n) if self.edged.contains(n) => E::Opt(Box::new(inner)),
                    other => other,
                };
                if self.s.bool() {
                    E::Word(vec![a, b])
                } else {
                    E::Word(vec![b, a])
                }
            }
            3 => self.cmd(),
            4 => {
                let a = self.closed_group(depth - 1);
                let b = self.closed_group(depth - 1);
                if self.p.unique_points && a == b {
                    // the same item in two || branches is C09's region
                    return a;
                }
                E::Fb(vec![a, b])
            }
            _ => self.defined_ref(true).unwrap_or_else(|| self.word_lit()),
        }
    }
}

/// `(a | b | c)` <-> `(a || b | c)` <-> `(a | b || c)`: alternations of plain literals are re-cut into || levels
pub fn resplit_levels(e: &E, cut: usize) -> E {
    fn flat_lits(e: &E, out: &mut Vec<E>) -> bool {
        match e {
            E::Lit { .. } => {
                out.push(e.clone());
                true
            }
            E::Alt(v) | E::Fb(v) => v.iter().all(|c| flat_lits(c, out)),
            _ => false,
        }
    }
    match e {
        E::Alt(_) | E::Fb(_) => {
            let mut lits = vec![];
            if flat_lits(e, &mut lits) && lits.len() >= 2 {
                let k = cut % lits.len();
                let mk = |v: &[E]| if v.len() == 1 { v[0].clone() } else { E::Alt(v.to_vec()) };
                if k == 0 {
                    return mk(&lits);
                }
                return E::Fb(vec![mk(&lits[..k]), mk(&lits[k..])]);
            }
            e.map_children(&mut |c| resplit_levels(c, cut))
        }
        _ => e.map_children(&mut |c| resplit_levels(c, cut)),
    }
}

const SHELLS: [&str; 4] = ["bash", "fish", "zsh", "pwsh"];

/// A clean grammar plus the vocabulary it was built from.
pub fn gen_clean(s: &mut Src, p: &Profile) -> (G, Vocab) {
    let v = make_vocab(s, p);
    let ndefs = s.below(p.max_defs + 1);
    let mut g = Gen { s, p: p.clone(), v, budget: p.max_nodes, defs: vec![], avail_from: 0, spec_names: vec![], edged: Default::default(), prev_words: vec![] };
    // names and kinds first
    let chain = ndefs >= 3 && g.s.chance(1, 3);
    for i in 0..ndefs {
        let ws = g.s.chance(3, 8) && !chain;
        g.defs.push((format!("{}{}", if ws { "W" } else { "N" }, i), ws));
    }
    // specialised names
    let mut spec_stmts: Vec<Stmt> = vec![];
    if p.specs {
        let nspec = g.s.weighted(&[4, 3, 1]);
        for i in 0..nspec {
            let name = format!("S{i}");
            let has_plain = g.s.bool();
            let mut any = false;
            for sh in SHELLS {
                if g.s.chance(1, 2) {
                    any = true;
                    let body = E::Cmd(if p.exec_cmds { format!("echo spec_{name}_{sh}") } else { format!("spec_{name}_{sh}") });
                    spec_stmts.push(Stmt::Def { name: name.clone(), shell: Some(sh.to_string()), e: body });
                }
            }
            if has_plain {
                spec_stmts.push(Stmt::Def { name: name.clone(), shell: None, e: E::Cmd(if p.exec_cmds { format!("echo plain_{name}") } else { format!("plain_{name}") }) });
            }
            if any || has_plain {
                g.spec_names.push((name, has_plain));
            }
        }
    }
    // definition bodies: definition i may refer to definitions j > i only (acyclic by construction)
    let mut def_stmts: Vec<Stmt> = vec![];
    for i in (0..ndefs).rev() {
        g.avail_from = i + 1;
        let (name, ws) = g.defs[i].clone();
        let depth = g.s.range(1, p.max_depth.min(3));
        g.budget = g.budget.max(6);
        let mut body = if ws { g.closed_group(depth) } else { g.top(depth) };
        if !ws && chain {
            // a chain of definitions: each one refers to the next non-word definition
            if let Some((next, _)) = g.defs.iter().skip(i + 1).find(|(_, w)| !*w).cloned() {
                body = if g.s.bool() { E::Seq(vec![body, E::Nt(next)]) } else { E::Alt(vec![E::Nt(next), E::Seq(vec![lit("lnk"), body])]) };
            }
        }
        if ws && (g.lit_like(&body) || matches!(body, E::Word(_))) {
            g.edged.insert(name.clone());
        }
        def_stmts.push(Stmt::Def { name, shell: None, e: body });
    }
    g.avail_from = 0;
    let nvar = if p.multi_variant { 1 + g.s.weighted(&[6, 2, 1]) } else { 1 };
    let mut stmts: Vec<Stmt> = vec![];
    for _ in 0..nvar {
        let depth = g.s.range(1, p.max_depth);
        g.budget = g.budget.max(p.max_nodes / nvar);
        let mut e = g.top(depth);
        if chain && stmts.is_empty() {
            // the chain of definitions is used: its head is referenced from the first call variant
            let head = g.defs[0].0.clone();
            e = if g.s.bool() { E::Seq(vec![E::Nt(head), e]) } else { E::Alt(vec![e, E::Nt(head)]) };
        }
        stmts.push(Stmt::Call { name: "cmd".to_string(), e });
    }
    // shuffle definitions among the statements (statement order of call variants is kept)
    let mut rest: Vec<Stmt> = def_stmts.into_iter().chain(spec_stmts).collect();
    while !rest.is_empty() {
        let i = g.s.below(rest.len());
        let st = rest.remove(i);
        let pos = g.s.below(stmts.len() + 1);
        stmts.insert(pos, st);
    }
    let vocab = g.v.clone();
    (G { stmts }, vocab)
}
