use cgv::engine::Tier;

fn main() {
    let args: Vec<String> = std::env::args().collect();
    if args.len() < 3 {
        eprintln!("usage: cgv <ID> <quick|thorough> | cgv <ID> --replay <file>");
        std::process::exit(2);
    }
    let prop = args[1].as_str();
    if prop == "--tree" {
        // authoring aid: print the JSON tree of a .usage text (parsed with complgen's parser)
        match complgen::parse::Grammar::parse(&args[2]) {
            Ok(g) => println!("{}", cgv::obs::grammar_to_ast(&g).to_json()),
            Err(e) => {
                eprintln!("{e:?}");
                std::process::exit(2)
            }
        }
        return;
    }
    if args[2] == "--replay" {
        let code = cgv::props::replay(prop, args.get(3).map(|s| s.as_str()).unwrap_or(""));
        std::process::exit(code);
    }
    let tier = match args[2].as_str() {
        "quick" => Tier::Quick,
        "thorough" => Tier::Thorough,
        other => {
            eprintln!("unknown tier {other}");
            std::process::exit(2);
        }
    };
    let seed: u64 = std::env::var("VERIF_SEED").ok().and_then(|s| s.trim().parse::<i64>().ok()).map(|v| v as u64).unwrap_or(0);
    // panics inside complgen are reported by the oracles; keep stderr readable
    std::panic::set_hook(Box::new(|_| {}));
    let code = cgv::props::run(prop, tier, seed);
    std::process::exit(code);
}
