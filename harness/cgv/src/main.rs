use cgv::engine::Tier;

fn main() {
    let args: Vec<String> = std::env::args().collect();
    if args.len() < 3 {
        eprintln!("usage: cgv <ID> <quick|thorough> | cgv <ID> --replay <file>");
        std::process::exit(2);
    }
    let prop = args[1].as_str();
    if prop == "--tree" {
        // authoring aid: print the JSON tree of a .usage text (parsed with complgen's parser)
        match complgen::parse::Grammar::parse(&args[2]) {
            Ok(g) => println!("{}", cgv::obs::grammar_to_ast(&g).to_json()),
            Err(e) => {
                eprintln!("{e:?}");
                std::process::exit(2)
            }
        }
        return;
    }
    if args[2] == "--replay" {
        let code = cgv::props::replay(prop, args.get(3).map(|s| s.as_str()).unwrap_or(""));
        std::process::exit(code);
    }
    let tier = match args[2].as_str() {
        "quick" => Tier::Quick,
        "thorough" => Tier::Thorough,
        other => {
            eprintln!("unknown tier {other}");
            std::process::exit(2);
        }
    };
    if std::env::var("CGV_CHILD").is_err() {
        // supervisor: complgen is called in-process by the checks; if it takes the process down
        // (stack overflow, abort) the supervisor still reports something meaningful
        let root = std::env::temp_dir().join(format!("cgv.{}", std::process::id()));
        let _ = std::fs::create_dir_all(&root);
        let me = std::env::current_exe().expect("current_exe");
        let st = std::process::Command::new(me).args(&args[1..]).env("CGV_CHILD", "1").env("CGV_SCRATCH_ROOT", &root).status();
        let code = match st {
            Ok(s) => match s.code() {
                Some(c) if c == 0 || c == 1 || c == 2 => c,
                _ => {
                    eprintln!("check process for {prop} died ({s:?}); examining the inputs it was working on");
                    let c = cgv::props::after_crash(prop, &root);
                    if c == 2 {
                        eprintln!("INCONCLUSIVE: harness process died and no traced input reproduces a violation");
                    }
                    c
                }
            },
            Err(e) => {
                eprintln!("cannot start child: {e}");
                2
            }
        };
        let _ = std::fs::remove_dir_all(&root);
        std::process::exit(code);
    }
    let seed: u64 = std::env::var("VERIF_SEED").ok().and_then(|s| s.trim().parse::<i64>().ok()).map(|v| v as u64).unwrap_or(0);
    // panics inside complgen are reported by the oracles; keep stderr readable
    std::panic::set_hook(Box::new(|_| {}));
    let code = cgv::props::run(prop, tier, seed);
    std::process::exit(code);
}
