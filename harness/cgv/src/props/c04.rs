//! C04 — every emitted script embeds exactly the compiled automaton.

use super::common::*;
use crate::ast::*;
use crate::bin::*;
use crate::engine::*;
use crate::gen_any::enum_trees;
use crate::gen_clean::Profile;
use crate::model::{builtin_marker, classify_builtin, Sym};
use crate::obs;
use crate::print::*;
use crate::scripts::{self, Tables};
use complgen::dfa::{Inp, DFA};
use serde_json::json;
use std::collections::{BTreeMap, BTreeSet};

/// (from, label, to); within-word items are labelled by the id the script uses for them
#[derive(Clone, Debug, PartialEq, Eq, PartialOrd, Ord)]
enum Lab {
    Lit { text: String, descr: Option<String>, level: usize },
    Cmd { text: String, level: usize, compadd: bool },
    Any,
    Sub { id: usize, level: usize },
}

type Edge = (u32, Lab, u32);

fn norm_cmd(shell: &str, body: &str) -> String {
    let t = body.trim();
    match classify_builtin(shell, t) {
        Some(b) => builtin_marker(b),
        None => {
            if t == ":" || t.starts_with('#') {
                String::new()
            } else {
                t.to_string()
            }
        }
    }
}

fn levels_of(lv: &[BTreeMap<u32, Vec<usize>>], from: u32, id: usize) -> Vec<usize> {
    lv.iter().enumerate().filter(|(_, m)| m.get(&from).map(|v| v.contains(&id)).unwrap_or(false)).map(|(l, _)| l).collect()
}

/// the labelled transitions a table set describes
fn edges_of_tables(shell: &str, t: &Tables, cmds: &BTreeMap<usize, String>, what: &str) -> Result<BTreeSet<Edge>, String> {
    let mut out = BTreeSet::new();
    for (from, row) in &t.lit {
        for (pos, to) in row {
            let Some(text) = t.literals.get(*pos) else { return Err(format!("{what}: state {from} has a transition on literal #{pos}, but the literal list has {} entries", t.literals.len())) };
            let lv = levels_of(&t.lit_lv, *from, *pos);
            if lv.is_empty() {
                return Err(format!("{what}: state {from} matches literal {text:?} but offers it at no fallback level"));
            }
            for l in lv {
                out.insert((*from, Lab::Lit { text: text.clone(), descr: t.descr_of.get(pos).cloned(), level: l }, *to));
            }
        }
    }
    for (l, m) in t.lit_lv.iter().enumerate() {
        for (from, ids) in m {
            for pos in ids {
                if t.lit.get(from).and_then(|r| r.get(pos)).is_none() {
                    return Err(format!("{what}: state {from} offers literal #{pos} at level {l} but has no transition on it"));
                }
            }
        }
    }
    for (table, lvs, compadd) in [(&t.cmd, &t.cmd_lv, false), (&t.compadd, &t.compadd_lv, true)] {
        for (from, row) in table {
            for (id, to) in row {
                let Some(body) = cmds.get(id) else { return Err(format!("{what}: state {from} refers to command #{id}, which has no function")) };
                let lv = levels_of(lvs, *from, *id);
                if lv.is_empty() {
                    return Err(format!("{what}: state {from} matches command #{id} but runs it at no fallback level"));
                }
                for l in lv {
                    out.insert((*from, Lab::Cmd { text: norm_cmd(shell, body), level: l, compadd }, *to));
                }
            }
        }
        for (l, m) in lvs.iter().enumerate() {
            for (from, ids) in m {
                for id in ids {
                    if table.get(from).and_then(|r| r.get(id)).is_none() {
                        return Err(format!("{what}: state {from} runs command #{id} at level {l} but has no transition on it"));
                    }
                }
            }
        }
    }
    for (from, to) in &t.star {
        out.insert((*from, Lab::Any, *to));
    }
    for (from, row) in &t.sub {
        for (id, to) in row {
            let lv = levels_of(&t.sub_lv, *from, *id);
            if lv.is_empty() {
                return Err(format!("{what}: state {from} matches within-word expression #{id} but completes it at no fallback level"));
            }
            for l in lv {
                out.insert((*from, Lab::Sub { id: *id, level: l }, *to));
            }
        }
    }
    for (l, m) in t.sub_lv.iter().enumerate() {
        for (from, ids) in m {
            for id in ids {
                if t.sub.get(from).and_then(|r| r.get(id)).is_none() {
                    return Err(format!("{what}: state {from} completes within-word expression #{id} at level {l} but has no transition on it"));
                }
            }
        }
    }
    Ok(out)
}

/// edges of complgen's automaton; within-word inputs are labelled through `sub_id`
fn edges_of_dfa(d: &DFA, shell: &str, sub_id: &dyn Fn(&str) -> Option<usize>) -> Result<(BTreeSet<Edge>, u32), String> {
    let mut out = BTreeSet::new();
    for (from, tos) in &d.transitions {
        for (inp_id, to) in tos {
            let lab = match d.verif_input(*inp_id) {
                // bash completion has no descriptions: its script embeds none
                Inp::Literal { literal, description, fallback_level } => Lab::Lit { text: literal.to_string(), descr: if shell == "bash" { None } else { description.map(|x| x.to_string()) }, level: *fallback_level },
                Inp::Command { cmd, fallback_level } => Lab::Cmd { text: norm_cmd(shell, cmd), level: *fallback_level, compadd: false },
                Inp::Compadd { cmd, fallback_level } => Lab::Cmd { text: norm_cmd(shell, cmd), level: *fallback_level, compadd: true },
                Inp::Star => Lab::Any,
                Inp::Subword { subdfa, fallback_level } => {
                    let key = format!("{:?}", subdfa);
                    let Some(id) = sub_id(&key) else { return Err(format!("within-word automaton {key} has no counterpart in the script")) };
                    Lab::Sub { id, level: *fallback_level }
                }
            };
            out.insert((*from, lab, *to));
        }
    }
    Ok((out, d.starting_state))
}

fn show(e: &Edge) -> String {
    format!("{} --{:?}--> {}", e.0, e.1, e.2)
}

fn diff(what: &str, script: &BTreeSet<Edge>, dfa: &BTreeSet<Edge>) -> Result<(), String> {
    if script == dfa {
        return Ok(());
    }
    let only_s: Vec<String> = script.difference(dfa).take(3).map(show).collect();
    let only_d: Vec<String> = dfa.difference(script).take(3).map(show).collect();
    Err(format!("{what}: the tables describe transitions the automaton does not have {:?}; the automaton has transitions the tables lack {:?}", only_s, only_d))
}

pub fn check_script(shell: &str, command: &str, script: &str, d: &DFA) -> Result<(usize, usize, bool), String> {
    let s = scripts::read_script(shell, command, script).map_err(|e| format!("cannot read the tables: {e}"))?;
    if s.registered_for.as_deref() != Some(command) {
        return Err(format!("the script registers its completion function for {:?}, the grammar's command is {command:?}", s.registered_for));
    }
    // which script id stands for which within-word automaton: determined through the main transitions
    let mut by_place: BTreeMap<(u32, u32, usize), Vec<String>> = BTreeMap::new();
    let mut subdfas: BTreeMap<String, complgen::dfa::DFAId> = BTreeMap::new();
    for (from, tos) in &d.transitions {
        for (inp_id, to) in tos {
            if let Inp::Subword { subdfa, fallback_level } = d.verif_input(*inp_id) {
                by_place.entry((*from, *to, *fallback_level)).or_default().push(format!("{:?}", subdfa));
                subdfas.insert(format!("{:?}", subdfa), *subdfa);
            }
        }
    }
    // candidates: script ids at the same (from, to, level)
    let mut cand: BTreeMap<String, BTreeSet<usize>> = BTreeMap::new();
    for ((from, to, level), keys) in &by_place {
        let ids: BTreeSet<usize> = s.main.sub.get(from).map(|r| r.iter().filter(|(id, t)| *t == to && levels_of(&s.main.sub_lv, *from, **id).contains(level)).map(|(id, _)| *id).collect()).unwrap_or_default();
        for k in keys {
            let e = cand.entry(k.clone()).or_insert_with(|| ids.clone());
            *e = e.intersection(&ids).copied().collect();
        }
    }
    // resolve by comparing the within-word tables themselves: ok[key] = the candidate ids whose tables
    // describe that automaton; then a maximum bipartite matching (a greedy choice lets one of two automata
    // with identical tables take the only candidate of the other)
    let no_sub = |_: &str| -> Option<usize> { None };
    let keys: Vec<&String> = cand.keys().collect();
    let mut ok: Vec<Vec<usize>> = vec![];
    let mut lasts: Vec<String> = vec![];
    for key in &keys {
        let ids = &cand[*key];
        let sub = d.subdfas.verif_lookup(subdfas[*key]);
        let (want, start) = edges_of_dfa(sub, shell, &no_sub)?;
        let mut last = String::new();
        let mut good = vec![];
        for id in ids {
            let Some(t) = s.subwords.get(id) else {
                last = format!("within-word function {id} is not defined");
                continue;
            };
            match edges_of_tables(shell, t, &s.cmds, &format!("within-word tables #{id}")).and_then(|got| diff(&format!("within-word tables #{id}"), &got, &want)) {
                Ok(()) => {
                    if s.sub_start != Some(start) {
                        last = format!("within-word matching starts at state {:?}, the automaton starts at {start}", s.sub_start);
                        continue;
                    }
                    let lits: BTreeSet<&String> = t.literals.iter().collect();
                    let used_lits: BTreeSet<&String> = want.iter().filter_map(|(_, l, _)| if let Lab::Lit { text, .. } = l { Some(text) } else { None }).collect();
                    if lits != used_lits {
                        last = format!("within-word tables #{id}: literal list {:?} differs from the automaton's literals {:?}", lits, used_lits);
                        continue;
                    }
                    good.push(*id);
                }
                Err(e) => last = e,
            }
        }
        ok.push(good);
        lasts.push(last);
    }
    fn augment(k: usize, ok: &[Vec<usize>], owner: &mut BTreeMap<usize, usize>, seen: &mut BTreeSet<usize>) -> bool {
        for id in &ok[k] {
            if !seen.insert(*id) {
                continue;
            }
            let prev = owner.get(id).copied();
            if prev.is_none() || augment(prev.unwrap(), ok, owner, seen) {
                owner.insert(*id, k);
                return true;
            }
        }
        false
    }
    let mut owner: BTreeMap<usize, usize> = BTreeMap::new();
    for k in 0..keys.len() {
        let mut seen = BTreeSet::new();
        if !augment(k, &ok, &mut owner, &mut seen) {
            let why = if ok[k].is_empty() { lasts[k].clone() } else { format!("table sets {:?} describe it, but each of them is needed for another automaton", ok[k]) };
            return Err(format!("no within-word table set of the script describes the automaton expected there ({why})"));
        }
    }
    let mut assigned: BTreeMap<String, usize> = BTreeMap::new();
    for (id, k) in &owner {
        assigned.insert(keys[*k].clone(), *id);
    }
    if s.subwords.len() != assigned.len() {
        return Err(format!("the script defines {} within-word table sets, the automaton uses {}", s.subwords.len(), assigned.len()));
    }
    let lookup = |k: &str| assigned.get(k).copied();
    let (want, start) = edges_of_dfa(d, shell, &lookup)?;
    let got = edges_of_tables(shell, &s.main, &s.cmds, "main tables")?;
    diff("main tables", &got, &want)?;
    if s.main.start != Some(start) {
        return Err(format!("the script starts at state {:?}, the automaton at {start}", s.main.start));
    }
    let lits: BTreeSet<&String> = s.main.literals.iter().collect();
    let used_lits: BTreeSet<&String> = want.iter().filter_map(|(_, l, _)| if let Lab::Lit { text, .. } = l { Some(text) } else { None }).collect();
    if lits != used_lits {
        return Err(format!("main literal list {:?} differs from the automaton's literals {:?}", lits, used_lits));
    }
    // every command function is used and holds the automaton's command text (checked through the edges);
    // no stray functions
    let mut used_cmds: BTreeSet<String> = BTreeSet::new();
    let mut collect = |dd: &DFA| {
        for (_, tos) in &dd.transitions {
            for (i, _) in tos {
                if let Inp::Command { cmd, .. } | Inp::Compadd { cmd, .. } = dd.verif_input(*i) {
                    used_cmds.insert(norm_cmd(shell, cmd));
                }
            }
        }
    };
    collect(d);
    for id in subdfas.values() {
        collect(d.subdfas.verif_lookup(*id));
    }
    let have: BTreeSet<String> = s.cmds.values().map(|b| norm_cmd(shell, b)).collect();
    if have != used_cmds {
        return Err(format!("command functions hold {:?}, the automaton's commands are {:?}", have, used_cmds));
    }
    let has_descr_or_level = want.iter().any(|(_, l, _)| match l {
        Lab::Lit { descr, level, .. } => descr.is_some() || *level > 0,
        Lab::Cmd { level, .. } | Lab::Sub { level, .. } => *level > 0,
        Lab::Any => false,
    });
    let _ = Sym::Any;
    Ok((s.subwords.len(), s.shared, has_descr_or_level))
}

fn judge(g: &G, text: &str, with_bin: bool, salt: u8) -> Outcome {
    let mut c = Case::new(format!("{:?}", g));
    c.evals = 0;
    for shell in obs::SHELLS {
        let t = text.to_string();
        let compiled = std::panic::catch_unwind(move || obs::compile(&t, shell));
        let comp = match compiled {
            Ok(Ok(x)) => x,
            _ => {
                c.exclude("rejected (C08) or panic (C06)", 1);
                continue;
            }
        };
        let script = match obs::emit(&comp, shell) {
            Ok(s) => s,
            Err(e) => return Outcome::Fail(Failure::new(format!("emitting the {shell} script failed: {e}"), json!({"text": text, "g": g.to_json(), "shell": shell}))),
        };
        c.evals += 1;
        match check_script(shell, &comp.command, &script, &comp.min) {
            Ok((nsub, shared, rich)) => {
                if nsub >= 1 && rich {
                    c.extra_keys.push(format!("{shell}|{text}"));
                }
                if shared >= 2 {
                    c.class("shared_table_sets");
                }
                if nsub >= 2 {
                    c.class("within-word table sets>=2");
                }
            }
            Err(e) => return Outcome::Fail(Failure::new(format!("{shell} script: {e}"), json!({"text": text, "g": g.to_json(), "shell": shell}))),
        }
        if with_bin && obs::SHELLS[(salt % 4) as usize] == shell {
            let sc = Scratch::new();
            match compile_text(text, shell, &sc) {
                Ok(r) if r.status == Some(0) => {
                    c.evals += 1;
                    c.class("binary_run");
                    if strip_sig(&r.stdout_s()) != strip_sig(&script) {
                        return Outcome::Fail(Failure::new(format!("complgen --{shell} prints a script that differs from the library's emitter output for the same grammar"), json!({"text": text, "g": g.to_json(), "shell": shell})));
                    }
                    if shell == "bash" {
                        if let Err(e) = crate::bashdrv::bash_n(&r.stdout_s()) {
                            return Outcome::Fail(Failure::new(format!("the bash script does not pass `bash -n`: {e}"), json!({"text": text, "g": g.to_json(), "shell": shell})));
                        }
                    }
                }
                Ok(r) => return Outcome::Fail(Failure::new(format!("complgen --{shell} exits with {:?} on a grammar the library accepts", r.status), json!({"text": text, "g": g.to_json(), "shell": shell}))),
                Err(e) => return Outcome::Broken(format!("cannot run binary: {e}")),
            }
        }
    }
    if c.evals == 0 {
        return Outcome::Skip("rejected".into());
    }
    for f in features(g) {
        c.class(f);
    }
    c.sample = Some(json!({"text": text}));
    Outcome::Pass(c)
}

pub fn profile() -> Profile {
    let mut p = Profile::general();
    // many within-word expressions (twins: same shape / different literals, different shapes, levels)
    p.w = [6, 5, 5, 5, 3, 3, 9, 4, 2, 4, 3, 3];
    p.max_nodes = 50;
    p
}

/// command names other than `cmd`: everything the scripts derive from the name (function names, the
/// registration) must still belong to the grammar's command
const COMMAND_NAMES: [&str; 8] = ["python3.11", "g++", "mkfs.ext4", "a-b_c", "x:y", "7z", "_under", "a@b"];

fn case(bytes: &[u8], with_bin: bool) -> Outcome {
    let cc = clean_case(bytes, &profile(), false);
    let pick = bytes.get(1).copied().unwrap_or(0) as usize;
    if pick % 5 == 0 {
        let name = COMMAND_NAMES[(pick / 5) % COMMAND_NAMES.len()];
        let mut g = cc.g.clone();
        for st in g.stmts.iter_mut() {
            if let Stmt::Call { name: n, .. } = st {
                *n = name.to_string();
            }
        }
        let text = print_minimal(&g);
        return match judge(&g, &text, with_bin, bytes.first().copied().unwrap_or(0)) {
            Outcome::Pass(mut c) => {
                c.class("command_name_not_cmd");
                Outcome::Pass(c)
            }
            o => o,
        };
    }
    judge(&cc.g, &cc.text, with_bin, bytes.first().copied().unwrap_or(0))
}

fn case_tree(e: &E) -> Outcome {
    if !super::c02::tree_in_domain(e) {
        return Outcome::Skip("shape outside the documented domain".into());
    }
    let g = G { stmts: vec![Stmt::Call { name: "cmd".into(), e: e.clone() }] };
    let text = print_minimal(&g);
    judge(&g, &text, false, 0)
}

fn case_regress(doc: &serde_json::Value) -> Outcome {
    let Some(g) = super::common::grammar_from_doc(doc) else { return Outcome::Broken("bad regress file".into()) };
    let text = print_minimal(&g);
    match judge(&g, &text, true, 0) {
        Outcome::Pass(mut c) => {
            c.nontrivial = true;
            Outcome::Pass(c)
        }
        o => o,
    }
}

pub fn run(tier: Tier, seed: u64) -> i32 {
    let mut run = Run::new(
        "C04",
        tier,
        seed,
        "translation_validation",
        "per (grammar, shell): the emitted script is read back with an independent reader for that shell (string constants lexed with the shell's own quoting rules, table statements of the emitter's layout, index base 0 for bash/pwsh and 1 for fish/zsh) into: literal list, description per literal, (state, literal/command/compadd/within-word/any-word) -> state tables, per-state-per-level candidate lists, start state, command function bodies, registration. The labelled transition set reconstructed from the tables (label = text + description from the literal list, level from the completion table that lists the item; a matched item offered at no level or an offered item without transition is an error) must equal the transition set of the library's minimised automaton, state numbers included, for the main automaton and for every within-word table set (matched to the automaton's within-word automata through the main transitions, shared shape functions resolved), start states equal, literal lists equal, command functions = the automaton's commands, registered for the grammar's command. Grammars: exhaustive small trees + random clean grammars (1 in 5 with a command name other than `cmd`: dots, plus signs, colons, leading underscore or digit) rich in same-shaped / differently shaped / level-resplit within-word expressions. Part 'binary': the binary's stdout equals the library's script (signature line aside), bash passes `bash -n`. Non-trivial: >=1 within-word table set and a description or level > 0; shared table sets are counted.",
    );
    run.assumptions.push("accepting states are not embedded in any script, so they cannot be compared; fish/zsh/pwsh scripts are read, not executed".into());
    run.enumerate("regress", load_regress("C04"), false, case_regress);
    let maxn = tier.pick(4, 5);
    for n in 1..=maxn {
        if run.failed() {
            break;
        }
        let trees = enum_trees(n, &super::c02::leaves());
        run.enumerate(&format!("exhaustive-trees-{n}"), trees, true, case_tree);
    }
    run.shards = 3;
    run.shrink_iters = 200;
    if !run.failed() {
        run.random("binary", tier.pick(100, 5_000), 600, |b| case(b, true));
    }
    run.shards = nshards();
    run.shrink_iters = 3000;
    if !run.failed() {
        run.random("library", tier.pick(60_000, 2_500_000), 600, |b| case(b, false));
    }
    if tier == Tier::Thorough && !run.failed() {
        run.fuzz("libfuzzer", 60_000, 8, 600, fuzz_case);
    }
    let code = run.finish();
    cleanup_scratch();
    code
}

pub fn replay(doc: &serde_json::Value) -> i32 {
    let d = if doc.get("detail").is_some() { &doc["detail"] } else { doc };
    let r = case_regress(d);
    cleanup_scratch();
    match r {
        Outcome::Fail(f) => {
            println!("VIOLATION property=C04 replay=(given) {}", f.msg);
            1
        }
        Outcome::Broken(_) => 2,
        _ => 0,
    }
}

/// entry point of the libFuzzer target
pub fn fuzz_case(data: &[u8]) -> Outcome {
    case(data, false)
}
