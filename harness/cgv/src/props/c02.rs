//! C02 — compiled automaton = grammar language, labels included.

use super::common::*;
use crate::ast::*;
use crate::automata::distinguish;
use crate::engine::*;
use crate::gen_any::enum_trees;
use crate::gen_clean::Profile;
use crate::model::*;
use crate::obs;
use crate::print::*;
use serde_json::json;

fn show_word(w: &[Sym]) -> Vec<String> {
    w.iter().map(|s| s.short()).collect()
}

/// judge one grammar text for one shell; Ok(None) = pipeline rejected the grammar (C08's business)
pub fn judge(g: &G, text: &str, shell: &str) -> Result<Option<(usize, usize)>, Failure> {
    let built = match denote(g, shell) {
        Ok(b) => b,
        Err(_) => return Ok(None),
    };
    let compiled = std::panic::catch_unwind(|| obs::compile(text, shell));
    let compiled = match compiled {
        Ok(c) => c,
        Err(_) => return Ok(None), // crashes are C06's business
    };
    let c = match compiled {
        Ok(c) => c,
        Err(_) => return Ok(None),
    };
    let want = &built.dfa;
    if obs::equal_language_twin_words(&obs::view(&c.raw, shell)) {
        obs::TWIN_REGION_EXCLUDED.fetch_add(1, std::sync::atomic::Ordering::Relaxed);
        return Ok(None);
    }
    for (which, d) in [("raw", &c.raw), ("minimised", &c.min)] {
        let v = obs::view(d, shell);
        let got = v.nfa.determinize();
        if got.canon() != want.canon() {
            let (w, by_impl) = match distinguish(&got, want) {
                Some((w, a)) => (w, a),
                None => (vec![], false),
            };
            return Err(Failure::new(
                format!(
                    "{which} automaton for {shell} differs from the grammar's language: item sequence {:?} is accepted only by {}",
                    show_word(&w),
                    if by_impl { "complgen" } else { "the grammar" }
                ),
                json!({"text": text, "shell": shell, "which": which, "word": show_word(&w), "accepted_by_complgen": by_impl}),
            ));
        }
    }
    Ok(Some((want.n(), max_level(want))))
}

fn case_random(bytes: &[u8]) -> Outcome {
    case_profile(bytes, &Profile::general())
}

fn case_dense(bytes: &[u8]) -> Outcome {
    case_profile(bytes, &Profile::dense())
}

fn case_profile(bytes: &[u8], p: &Profile) -> Outcome {
    let cc = clean_case(bytes, p, true);
    let feats = features(&cc.g);
    let mut c = Case::new("");
    c.evals = 0;
    let mut rejected = 0;
    let mut nontrivial = false;
    let mut keys = vec![];
    for shell in obs::SHELLS {
        match judge(&cc.g, &cc.text, shell) {
            Err(mut f) => {
                if let serde_json::Value::Object(m) = &mut f.detail {
                    m.insert("g".into(), cc.g.to_json());
                }
                return Outcome::Fail(f);
            }
            Ok(None) => rejected += 1,
            Ok(Some((n, lv))) => {
                c.evals += 2;
                if n >= 3 && !feats.is_empty() {
                    nontrivial = true;
                    keys.push(format!("{}|{:?}", shell, cc.g));
                }
                if lv >= 1 {
                    c.class("levels>=2");
                }
            }
        }
    }
    if rejected > 0 {
        c.exclude("clean_grammar_rejected_by_pipeline(shell instances)", rejected);
    }
    if c.evals == 0 {
        return Outcome::Skip("rejected for all shells".into());
    }
    c.nontrivial = false;
    if nontrivial {
        c.extra_keys = keys;
    }
    for f in feats {
        c.class(f);
    }
    c.sample = Some(json!({"text": cc.text}));
    Outcome::Pass(c)
}

pub fn leaves() -> Vec<E> {
    vec![lit("a"), litd("b", "d"), nt("U"), cmd("c")]
}

/// the accepted-by-construction subset of the exhaustive trees: shapes on which the documented rules
/// determine the meaning (Appendix B)
pub fn tree_in_domain(e: &E) -> bool {
    fn word_ok(ps: &[E]) -> bool {
        // no nested sequences/words as direct pieces, no two adjacent bare literals, placeholder only last
        for (i, p) in ps.iter().enumerate() {
            let last = i + 1 == ps.len();
            if matches!(p, E::Seq(_) | E::Word(_) | E::Descr(..)) {
                return false;
            }
            if i > 0 && matches!(p, E::Lit { .. }) && matches!(ps[i - 1], E::Lit { .. }) {
                return false;
            }
            if !piece_ok(p, last) {
                return false;
            }
        }
        true
    }
    fn piece_ok(p: &E, open_ok: bool) -> bool {
        match p {
            E::Lit { .. } | E::Cmd(_) => true,
            E::Nt(_) => open_ok,
            E::Alt(v) | E::Fb(v) => v.iter().all(|c| piece_ok(c, open_ok)),
            E::Opt(x) => piece_ok(x, open_ok),
            E::Many(x) => piece_ok(x, false),
            E::Word(ps) => {
                ps.iter().enumerate().all(|(i, q)| piece_ok(q, open_ok && i + 1 == ps.len()))
                    && !ps.windows(2).any(|w| matches!(w[0], E::Lit { .. }) && matches!(w[1], E::Lit { .. }))
                    && !ps.iter().any(|q| matches!(q, E::Seq(_) | E::Word(_) | E::Descr(..)))
            }
            E::Seq(_) | E::Descr(..) => false,
        }
    }
    fn group_ok(e: &E, top: bool) -> bool {
        match e {
            E::Lit { descr: None, .. } => true,
            E::Alt(v) if top => v.iter().all(|c| group_ok(c, true)),
            E::Opt(x) if top => group_ok(x, true),
            E::Many(x) => strict(x),
            E::Seq(v) | E::Word(v) => strict(&v[0]),
            E::Cmd(_) | E::Nt(_) if top => true,
            _ => false,
        }
    }
    fn strict(e: &E) -> bool {
        match e {
            E::Lit { descr: None, .. } => true,
            E::Many(x) => strict(x),
            E::Seq(v) | E::Word(v) => strict(&v[0]),
            _ => false,
        }
    }
    fn go(e: &E) -> bool {
        match e {
            E::Word(ps) => word_ok(ps) && ps.iter().all(go_in_word),
            E::Descr(x, _) => group_ok(x, true) && go(x),
            _ => e.children().into_iter().all(go),
        }
    }
    fn go_in_word(_e: &E) -> bool {
        true
    }
    // the vocabulary's b carries "d": a group description "gd" on b would conflict only with itself; fine.
    // same literal with two different descriptions at one point is C08's domain: exclude trees where
    // `b` occurs both with its own description and as a group head receiving "gd"
    go(e)
}

fn case_tree(e: &E) -> Outcome {
    if !tree_in_domain(e) {
        return Outcome::Skip("shape outside the documented domain".into());
    }
    let g = G { stmts: vec![Stmt::Call { name: "cmd".into(), e: e.clone() }] };
    let text = print_minimal(&g);
    let mut c = Case::new(format!("{:?}", e));
    c.evals = 0;
    let mut rejected = 0;
    for shell in ["bash", "zsh"] {
        match judge(&g, &text, shell) {
            Err(f) => return Outcome::Fail(f),
            Ok(None) => rejected += 1,
            Ok(Some((n, _))) => {
                c.evals += 2;
                if n >= 3 && !features(&g).is_empty() {
                    c.nontrivial = true;
                }
            }
        }
    }
    if c.evals == 0 {
        return Outcome::Skip("rejected by pipeline".into());
    }
    if rejected > 0 {
        c.exclude("rejected(shell instances)", rejected);
    }
    if e.size() >= 4 {
        c.sample = Some(json!({"text": text}));
    }
    Outcome::Pass(c)
}

fn case_regress(doc: &serde_json::Value) -> Outcome {
    let Some(g) = super::common::grammar_from_doc(doc) else { return Outcome::Broken("bad regress file".into()) };
    let text = print_minimal(&g);
    let mut c = Case::new(text.clone());
    c.evals = 0;
    // "repeat": defects that depend on the order of a randomly seeded container show only sometimes
    let repeat = doc["repeat"].as_u64().unwrap_or(1).max(1);
    for _ in 0..repeat {
        for shell in obs::SHELLS {
            match judge(&g, &text, shell) {
                Err(f) => return Outcome::Fail(f),
                Ok(Some((n, _))) => {
                    c.evals += 2;
                    c.nontrivial |= n >= 3;
                }
                Ok(None) => {}
            }
        }
    }
    c.sample = Some(json!({"text": text}));
    Outcome::Pass(c)
}

pub fn run(tier: Tier, seed: u64) -> i32 {
    let mut run = Run::new(
        "C02",
        tier,
        seed,
        "translation_validation",
        "per (grammar, shell): exact labelled-language equivalence (canonical minimal DFA over items Lit{text,descr,level}/Cmd{text,level}/Any/Word{canonical sub-language,level}; shortest distinguishing item sequence on failure) between the reference semantics built by Thompson NFA + subset construction from the harness's own AST and each of {raw, minimised} automaton complgen compiles from the printed text. exhaustive: all expression trees <=N nodes over {a, b \"d\", <U>, {{{c}}}} on the documented domain; random: clean grammars with definitions (shuffled), words, ||, group descriptions, specialisations x 4 shells. Non-trivial: reference DFA >=3 states and at least one of description/||/word/definition/command; distinct by (shell, grammar tree).",
    );
    run.assumptions.push("reference semantics (model.rs) and printer are trusted; grammars the pipeline rejects are counted and left to C08".into());
    run.enumerate("regress", load_regress("C02"), false, case_regress);
    let maxn = tier.pick(5, 6);
    for n in 1..=maxn {
        let trees = enum_trees(n, &leaves());
        run.enumerate(&format!("exhaustive-trees-{n}"), trees, true, case_tree);
        if run.failed() {
            return run.finish();
        }
    }
    run.random("random", tier.pick(250_000, 8_000_000), 600, case_random);
    if run.failed() {
        return run.finish();
    }
    run.random("random-dense", tier.pick(200_000, 6_000_000), 600, case_dense);
    run.extra.insert(
        "excluded_known_finding_region".into(),
        json!({"what": "(grammar, shell) instances in which a state expects two within-word automata with equal word languages that complgen keeps apart (C09's known finding F-permuted-twin-words)", "count": obs::TWIN_REGION_EXCLUDED.load(std::sync::atomic::Ordering::Relaxed)}),
    );
    if tier == Tier::Thorough && !run.failed() {
        run.fuzz("libfuzzer", 60_000, 8, 600, fuzz_case);
    }
    run.finish()
}

pub fn replay(doc: &serde_json::Value) -> i32 {
    let r = if doc.get("detail").is_some() { case_regress(&doc["detail"]) } else { case_regress(doc) };
    match r {
        Outcome::Fail(f) => {
            println!("VIOLATION property=C02 replay=(given) {}", f.msg);
            1
        }
        Outcome::Broken(_) => 2,
        _ => 0,
    }
}

/// entry point of the libFuzzer target: the first byte picks the profile
pub fn fuzz_case(data: &[u8]) -> Outcome {
    match data.split_first() {
        Some((b, rest)) if b % 2 == 1 => case_dense(rest),
        Some((_, rest)) => case_random(rest),
        None => case_random(data),
    }
}
