//! C03 — minimisation preserves the language and yields the trim minimal automaton.

use super::common::*;
use crate::ast::*;
use crate::automata::{distinguish, Pdfa};
use crate::engine::*;
use crate::gen_any::enum_trees;
use crate::gen_clean::Profile;
use crate::model::denote;
use crate::obs;
use crate::print::*;
use serde_json::json;
use std::collections::BTreeMap;

fn by_inp(v: &obs::View) -> Pdfa<String> {
    Pdfa {
        start: v.structure.start,
        accept: v.structure.accept.clone(),
        trans: v
            .structure
            .trans
            .iter()
            .map(|row| row.iter().map(|(k, t)| (format!("{:?}", v.inputs[*k as usize]), *t)).collect::<BTreeMap<_, _>>())
            .collect(),
    }
}

fn check_trim_minimal(which: &str, d: &Pdfa<String>, text: &str, shell: &str) -> Result<(), Failure> {
    let r = d.reachable();
    let c = d.coreachable();
    let n = d.n();
    let unreachable: Vec<usize> = (0..n).filter(|q| !r[*q]).collect();
    let dead: Vec<usize> = (0..n).filter(|q| !c[*q]).collect();
    // an automaton for the empty language may keep its (dead) start state
    let empty = d.is_empty_language();
    if !unreachable.is_empty() || (!dead.is_empty() && !(empty && n == 1)) {
        return Err(Failure::new(
            format!("{which}: minimised automaton is not trim (unreachable states {:?}, states that cannot reach acceptance {:?})", unreachable, dead),
            json!({"text": text, "shell": shell, "which": which}),
        ));
    }
    let classes = d.moore_classes();
    let k = classes.iter().collect::<std::collections::BTreeSet<_>>().len();
    if k != n {
        let mut pair = (0, 0);
        'o: for i in 0..n {
            for j in i + 1..n {
                if classes[i] == classes[j] {
                    pair = (i, j);
                    break 'o;
                }
            }
        }
        return Err(Failure::new(
            format!("{which}: minimised automaton has {n} states but states #{} and #{} accept the same continuations ({k} classes)", pair.0, pair.1),
            json!({"text": text, "shell": shell, "which": which}),
        ));
    }
    Ok(())
}

/// Ok(None): grammar rejected by the pipeline
pub fn judge(g: &G, text: &str, shell: &str) -> Result<Option<(bool, usize)>, Failure> {
    let compiled = std::panic::catch_unwind(|| obs::compile(text, shell));
    let c = match compiled {
        Ok(Ok(c)) => c,
        _ => return Ok(None),
    };
    let vr = obs::view(&c.raw, shell);
    let vm = obs::view(&c.min, shell);
    let raw = by_inp(&vr);
    let min = by_inp(&vm);
    // (1) language preserved, over complgen's own alphabet — no model involved
    if let Some((w, by_raw)) = distinguish(&raw, &min) {
        return Err(Failure::new(
            format!("minimize() changed the language for {shell}: input sequence {:?} accepted only {}", w, if by_raw { "before" } else { "after" }),
            json!({"text": text, "shell": shell, "word": w, "accepted_before_only": by_raw}),
        ));
    }
    // (2) trim and no two equivalent states
    check_trim_minimal("main automaton", &min, text, shell)?;
    // (3) size equals the size of an independently minimised copy of the raw automaton
    let mine = raw.minimize();
    if mine.n() != min.n() {
        return Err(Failure::new(
            format!("minimised automaton has {} states, the minimal automaton of the same language has {}", min.n(), mine.n()),
            json!({"text": text, "shell": shell}),
        ));
    }
    // within-word automata: only the minimised form is observable
    let model_words = denote(g, shell).ok().map(|b| b.words);
    for (k, sv) in &vm.subviews {
        let sd = by_inp(sv);
        check_trim_minimal(&format!("within-word automaton of input {k}"), &sd, text, shell)?;
        if let Some(mw) = &model_words {
            let canon = sv.nfa.determinize().canon();
            if !mw.contains_key(&canon) {
                return Err(Failure::new(
                    format!("a within-word automaton for {shell} denotes a language no word of the grammar has"),
                    json!({"text": text, "shell": shell, "canon": canon, "grammar_words": mw.keys().collect::<Vec<_>>() }),
                ));
            }
        }
    }
    // non-triviality: raw automaton had something to remove or merge, or the all-accepting shortcut
    let r = raw.reachable();
    let co = raw.coreachable();
    let had_junk = (0..raw.n()).any(|q| !r[q] || !co[q]);
    let merged = raw.trim().n() > mine.n();
    let all_accepting = raw.accept.iter().all(|a| *a);
    Ok(Some((had_junk || merged || all_accepting, raw.n())))
}

fn case_profile(bytes: &[u8], p: &Profile) -> Outcome {
    let cc = clean_case(bytes, p, false);
    let mut c = Case::new("");
    c.evals = 0;
    let mut keys = vec![];
    for shell in obs::SHELLS {
        match judge(&cc.g, &cc.text, shell) {
            Err(mut f) => {
                if let serde_json::Value::Object(m) = &mut f.detail {
                    m.insert("g".into(), cc.g.to_json());
                }
                return Outcome::Fail(f);
            }
            Ok(None) => c.exclude("rejected_by_pipeline(shell instances)", 1),
            Ok(Some((nt, n))) => {
                c.evals += 1;
                if nt {
                    keys.push(format!("{}|{}", shell, cc.text));
                    c.class("raw_had_equivalent_or_useless_states_or_all_accepting");
                }
                if n >= 10 {
                    c.class("raw_states>=10");
                }
            }
        }
    }
    if c.evals == 0 {
        return Outcome::Skip("rejected for all shells".into());
    }
    c.extra_keys = keys;
    c.sample = Some(json!({"text": cc.text}));
    Outcome::Pass(c)
}

fn case_tree(e: &E) -> Outcome {
    if !super::c02::tree_in_domain(e) {
        return Outcome::Skip("shape outside the documented domain".into());
    }
    let g = G { stmts: vec![Stmt::Call { name: "cmd".into(), e: e.clone() }] };
    let text = print_minimal(&g);
    let mut c = Case::new(text.clone());
    match judge(&g, &text, "bash") {
        Err(mut f) => {
            if let serde_json::Value::Object(m) = &mut f.detail {
                m.insert("g".into(), g.to_json());
            }
            return Outcome::Fail(f);
        }
        Ok(None) => return Outcome::Skip("rejected by pipeline".into()),
        Ok(Some((nt, _))) => c.nontrivial = nt,
    }
    if e.size() >= 4 {
        c.sample = Some(json!({"text": text}));
    }
    Outcome::Pass(c)
}

fn case_regress(doc: &serde_json::Value) -> Outcome {
    let Some(g) = super::common::grammar_from_doc(doc) else { return Outcome::Broken("bad regress file".into()) };
    let text = print_minimal(&g);
    let mut c = Case::new(text.clone());
    for shell in obs::SHELLS {
        match judge(&g, &text, shell) {
            Err(f) => return Outcome::Fail(f),
            Ok(Some((nt, _))) => c.nontrivial |= nt,
            Ok(None) => {}
        }
    }
    c.sample = Some(json!({"text": text}));
    Outcome::Pass(c)
}

pub fn run(tier: Tier, seed: u64) -> i32 {
    let mut run = Run::new(
        "C03",
        tier,
        seed,
        "translation_validation",
        "per (grammar, shell): (1) raw automaton == minimize(raw) as languages over complgen's own input alphabet, decided by product construction (shortest distinguishing input sequence on failure); (2) the minimised automaton, and every within-word automaton, is trim and Moore refinement merges no two of its states; (3) its state count equals that of the harness's own Moore-minimised copy of the raw automaton; within-word automata denote a word language of the reference semantics. Sources: regress files, all expression trees <=N nodes, random clean grammars, random 'dense' grammars (few symbols, deep optional/repeated nesting). Non-trivial: the raw automaton had equivalent, unreachable or dead states, or every state accepting; distinct by (shell, grammar text).",
    );
    run.assumptions.push("harness automata library (automata.rs); the reference semantics only for the within-word language check".into());
    run.enumerate("regress", load_regress("C03"), false, case_regress);
    let maxn = tier.pick(5, 6);
    for n in 1..=maxn {
        if run.failed() {
            return run.finish();
        }
        run.enumerate(&format!("exhaustive-trees-{n}"), enum_trees(n, &super::c02::leaves()), true, case_tree);
    }
    if !run.failed() {
        run.random("random", tier.pick(200_000, 6_000_000), 600, |b| case_profile(b, &Profile::general()));
    }
    if !run.failed() {
        run.random("random-dense", tier.pick(250_000, 8_000_000), 600, |b| case_profile(b, &Profile::dense()));
    }
    if tier == Tier::Thorough && !run.failed() {
        run.fuzz("libfuzzer", 60_000, 8, 600, fuzz_case);
    }
    run.finish()
}

pub fn replay(doc: &serde_json::Value) -> i32 {
    let r = if doc.get("detail").is_some() { case_regress(&doc["detail"]) } else { case_regress(doc) };
    match r {
        Outcome::Fail(f) => {
            println!("VIOLATION property=C03 replay=(given) {}", f.msg);
            1
        }
        Outcome::Broken(_) => 2,
        _ => 0,
    }
}

/// entry point of the libFuzzer target: the first byte picks the profile
pub fn fuzz_case(data: &[u8]) -> Outcome {
    match data.split_first() {
        Some((b, rest)) if b % 2 == 1 => case_profile(rest, &Profile::dense()),
        Some((_, rest)) => case_profile(rest, &Profile::general()),
        None => case_profile(data, &Profile::general()),
    }
}
