//! C08 — grammar mistakes are rejected with the right diagnostic; clean grammars pass.

use super::common::*;
use crate::ast::*;
use crate::bin::*;
use crate::engine::*;
use crate::gen_clean::Profile;
use crate::mistakes::*;
use crate::obs;
use crate::print::*;
use crate::src::Src;
use serde_json::json;

/// library verdict: Ok(()) accepted, Err(kind) rejected with that Error variant, None = panicked
fn lib_verdict(text: &str, shell: &str) -> Option<Result<(), &'static str>> {
    let t = text.to_string();
    let sh = shell.to_string();
    let r = std::thread::Builder::new()
        .stack_size(256 << 20)
        .spawn(move || std::panic::catch_unwind(|| obs::compile(&t, &sh).map(|_| ()).map_err(|(_, k)| k)))
        .expect("thread")
        .join();
    match r {
        Ok(Ok(v)) => Some(v),
        _ => None,
    }
}

fn bin_verdict(text: &str, shell: &str) -> Result<(i32, String), String> {
    let sc = Scratch::new();
    let out = compile_text(text, shell, &sc).map_err(|e| format!("cannot run binary: {e}"))?;
    if out.timed_out {
        return Err("timeout".into());
    }
    let status = out.status.unwrap_or(-(out.signal.unwrap_or(1)));
    let err = out.stderr_s();
    // first diagnostic line that is not a warning block
    let mut first = String::new();
    for l in err.lines() {
        let low = l.to_lowercase();
        if low.contains("warning") {
            continue;
        }
        if low.contains("error") || low.contains("grammar needs") || low.contains("panicked") || low.contains("overflow") {
            first = l.to_string();
            break;
        }
    }
    if first.is_empty() {
        first = err.lines().find(|l| !l.trim().is_empty() && !l.contains("warning") && !l.trim_start().starts_with('|') && !l.trim_start().chars().next().map(|c| c.is_ascii_digit()).unwrap_or(false)).unwrap_or("").to_string();
    }
    Ok((status, first))
}

fn expected_for(p: &Planted, shell: &str) -> Option<Class> {
    match &p.only_shell {
        Some(s) if s != shell => None,
        _ => Some(p.class.clone()),
    }
}

struct Judged {
    evals: u64,
    classes: Vec<String>,
}

fn judge_planted(p: &Planted, text: &str, use_bin_shell: Option<&str>) -> Result<Judged, Result<Failure, String>> {
    let mut j = Judged { evals: 0, classes: vec![] };
    let detail = |shell: &str| json!({"text": text, "g": p.g.to_json(), "shell": shell, "class": p.class.name(), "variant": p.variant});
    for shell in obs::SHELLS {
        let want = expected_for(p, shell);
        let via_bin = p.class == Class::Cycle || use_bin_shell == Some(shell);
        if p.class != Class::Cycle {
            let got = lib_verdict(text, shell);
            j.evals += 1;
            match (&want, got) {
                (_, None) => return Err(Ok(Failure::new(format!("library pipeline panicked on a grammar with a planted {} ({})", p.class.name(), p.variant), detail(shell)))),
                (Some(c), Some(Ok(()))) => {
                    return Err(Ok(Failure::new(format!("grammar with {} ({}) was accepted for {shell}", c.name(), p.variant), detail(shell))))
                }
                (Some(c), Some(Err(k))) => {
                    if k != c.error_variant() {
                        return Err(Ok(Failure::new(
                            format!("grammar with {} ({}) was rejected for {shell} with the wrong kind of error: {k}", c.name(), p.variant),
                            detail(shell),
                        )));
                    }
                }
                (None, Some(Ok(()))) => {}
                (None, Some(Err(k))) => {
                    return Err(Ok(Failure::new(
                        format!("{} ({}) concerns another shell, yet compiling for {shell} was rejected with {k}", p.class.name(), p.variant),
                        detail(shell),
                    )))
                }
            }
        }
        if via_bin {
            let (status, first) = bin_verdict(text, shell).map_err(Err)?;
            j.evals += 1;
            j.classes.push("binary_run".into());
            match &want {
                Some(c) => {
                    if status != 1 {
                        return Err(Ok(Failure::new(
                            format!("grammar with {} ({}): complgen --{shell} ended with status {status}, expected 1", c.name(), p.variant),
                            json!({"text": text, "g": p.g.to_json(), "shell": shell, "class": p.class.name(), "variant": p.variant, "first": first}),
                        )));
                    }
                    if !first.to_lowercase().contains(c.keyword()) {
                        return Err(Ok(Failure::new(
                            format!("grammar with {} ({}): diagnostic of the wrong kind for {shell}: {first:?}", c.name(), p.variant),
                            json!({"text": text, "g": p.g.to_json(), "shell": shell, "class": p.class.name(), "variant": p.variant, "first": first}),
                        )));
                    }
                }
                None => {
                    if status != 0 {
                        return Err(Ok(Failure::new(
                            format!("{} ({}) concerns another shell, yet complgen --{shell} ended with status {status}: {first:?}", p.class.name(), p.variant),
                            detail(shell),
                        )));
                    }
                }
            }
        }
    }
    Ok(j)
}

/// positive corner cases the statement names
fn positive_corners(g: &G) -> Vec<&'static str> {
    let mut v = vec![];
    let spec_names: Vec<&String> = g.defs().filter(|(_, sh, _)| sh.is_some()).map(|(n, _, _)| n).collect();
    if g.defs().any(|(n, sh, e)| sh.is_none() && spec_names.contains(&n) && matches!(e, E::Cmd(_))) {
        v.push("specialised_name_with_plain_command_twin");
    }
    let mut last_placeholder = false;
    for e in g.exprs() {
        e.walk(&mut |x| {
            if let E::Word(ps) = x {
                fn open(e: &E) -> bool {
                    match e {
                        E::Nt(n) => n.starts_with('U') || n == "_" || n == "FILE",
                        E::Alt(v) => v.iter().any(open),
                        E::Opt(x) => open(x),
                        _ => false,
                    }
                }
                if ps.last().map(open).unwrap_or(false) {
                    last_placeholder = true;
                }
            }
        });
    }
    if last_placeholder {
        v.push("placeholder_last_in_word");
    }
    v
}

fn case(bytes: &[u8], with_bin: bool) -> Outcome {
    let cut = bytes.len() * 2 / 3;
    let (a, b) = bytes.split_at(cut);
    let p = Profile::general();
    let mut sa = Src::new(a);
    let (base, _) = crate::gen_clean::gen_clean(&mut sa, &p);
    let mut sb = Src::new(b);
    let layout: Vec<u8> = (0..48).map(|_| sb.byte()).collect();
    let base_text = {
        let mut st = Style::random(&layout);
        print_grammar(&base, &mut st, None).text
    };
    let mut c = Case::new("");
    c.evals = 0;
    // converse: the clean grammar must be accepted for every shell
    for shell in obs::SHELLS {
        c.evals += 1;
        match lib_verdict(&base_text, shell) {
            None => return Outcome::Fail(Failure::new("library pipeline panicked on a clean grammar", json!({"text": base_text, "g": base.to_json(), "shell": shell, "class": "clean"}))),
            Some(Ok(())) => {}
            Some(Err(k)) => {
                return Outcome::Fail(Failure::new(
                    format!("a grammar free of every listed mistake was rejected for {shell} with {k}"),
                    json!({"text": base_text, "g": base.to_json(), "shell": shell, "class": "clean", "kind": k}),
                ))
            }
        }
    }
    let corners = positive_corners(&base);
    for k in &corners {
        c.class(format!("clean:{k}"));
    }
    if !corners.is_empty() {
        c.extra_keys.push(format!("clean|{:?}", base));
    }
    if with_bin && sb.chance(1, 4) {
        let shell = obs::SHELLS[sb.below(4)];
        match bin_verdict(&base_text, shell) {
            Err(w) => return Outcome::Broken(w),
            Ok((st, first)) => {
                c.evals += 1;
                if st != 0 {
                    return Outcome::Fail(Failure::new(
                        format!("a clean grammar: complgen --{shell} ended with status {st}: {first:?}"),
                        json!({"text": base_text, "g": base.to_json(), "shell": shell, "class": "clean"}),
                    ));
                }
            }
        }
    }
    // planted mistake
    let planted = plant(&mut sb, &base);
    let text = {
        let mut st = Style::random(&layout);
        print_grammar(&planted.g, &mut st, None).text
    };
    let bin_shell = if with_bin { Some(obs::SHELLS[sb.below(4)]) } else { None };
    if planted.class == Class::Cycle && !with_bin {
        c.exclude("cycle cases are judged by the binary part only (library recursion is unbounded on undetected cycles)", 1);
    } else {
        match judge_planted(&planted, &text, bin_shell) {
            Err(Ok(f)) => return Outcome::Fail(f),
            Err(Err(w)) => return Outcome::Broken(w),
            Ok(j) => {
                c.evals += j.evals;
                for k in j.classes {
                    c.class(k);
                }
            }
        }
        c.class(format!("planted:{}", planted.class.name()));
        c.class(format!("variant:{}", planted.variant));
        if planted.deep {
            c.class("planted_deep");
            c.extra_keys.push(format!("{}|{:?}", planted.variant, planted.g));
        }
    }
    c.sample = Some(json!({"text": text, "planted": planted.class.name(), "variant": planted.variant}));
    Outcome::Pass(c)
}

fn case_regress(doc: &serde_json::Value) -> Outcome {
    let Some(g) = super::common::grammar_from_doc(doc) else { return Outcome::Broken("bad regress file".into()) };
    let text = print_minimal(&g);
    let class = doc["class"].as_str().unwrap_or("clean");
    let only = doc["only_shell"].as_str();
    let mut c = Case::new(text.clone());
    c.evals = 0;
    for shell in obs::SHELLS {
        let expect_err: Option<&str> = if class == "clean" || only.map(|o| o != shell).unwrap_or(false) { None } else { Some(class) };
        let (st, first) = match bin_verdict(&text, shell) {
            Ok(x) => x,
            Err(w) => return Outcome::Broken(w),
        };
        c.evals += 1;
        match expect_err {
            None => {
                if st != 0 {
                    return Outcome::Fail(Failure::new(format!("clean grammar rejected for {shell}: status {st} {first:?}"), json!({"text": text, "g": g.to_json(), "shell": shell, "class": class})));
                }
            }
            Some(kw) => {
                // the class is stored by name ("SubwordSpaces") or by keyword; compare through the keyword
                let kw_l = kw.to_lowercase();
                let key = [Class::Cycle, Class::DuplicatePlain, Class::DuplicateSpec, Class::VaryingNames, Class::NoCallVariant, Class::SlashInName, Class::UnknownShell, Class::NonCommandSpec, Class::SubwordSpaces, Class::PlaceholderNotLast, Class::ConflictingDescriptions]
                    .iter()
                    .find(|c| c.name().to_lowercase() == kw_l)
                    .map(|c| c.keyword().to_string())
                    .unwrap_or(kw_l);
                if st != 1 || !first.to_lowercase().contains(&key) {
                    return Outcome::Fail(Failure::new(
                        format!("grammar with a mistake ({kw}) for {shell}: status {st}, diagnostic {first:?}"),
                        json!({"text": text, "g": g.to_json(), "shell": shell, "class": class}),
                    ));
                }
            }
        }
    }
    c.nontrivial = true;
    c.sample = Some(json!({"text": text, "class": class}));
    Outcome::Pass(c)
}

/// dedicated witnesses of the known findings: executed on every run so that the KNOWN-FINDING line is
/// printed only while the defect is there; the generators stay out of the region by construction
fn case_witness(w: &(&'static str, &'static str, &'static str)) -> Outcome {
    let (id, text, kind) = *w;
    let mut c = Case::new(format!("witness {id}"));
    c.evals = 0;
    for shell in obs::SHELLS {
        c.evals += 1;
        match lib_verdict(text, shell) {
            None => return Outcome::Fail(Failure::new("library pipeline panicked on a clean grammar", json!({"text": text, "shell": shell, "class": "clean"}))),
            Some(Ok(())) => {}
            Some(Err(k)) => {
                if k == kind && known_ids("C08").contains(id) {
                    c.known.push((id.to_string(), finding_what(id)));
                } else {
                    return Outcome::Fail(Failure::new(
                        format!("a grammar free of every listed mistake was rejected for {shell} with {k}"),
                        json!({"text": text, "shell": shell, "class": "clean", "kind": k}),
                    ));
                }
            }
        }
    }
    c.sample = Some(json!({"text": text, "witness_of": id}));
    Outcome::Pass(c)
}

pub fn run(tier: Tier, seed: u64) -> i32 {
    let mut run = Run::new(
        "C08",
        tier,
        seed,
        "exploration",
        "a clean-by-construction grammar (Appendix B; must be accepted for all four shells) + at most one planted mistake of a known class (cycle x reachability pattern, duplicate plain / @target / @other-shell definition, varying or missing call variants, '/' in the name, unknown shell, non-command specialisation, two space-separated literals inside a word directly or behind 1-4 definitions, placeholder inside a word with a follower, same literal at one point with two descriptions) attached at a random place behind 0-4 operator levels / definitions, random layout x 4 shells. Oracle: the Error variant returned by the library pipeline is the planted class's (Ok for clean and for mistakes that concern another shell); part 'binary': exit status and keyword of the first diagnostic line. Non-trivial: planted mistake behind >=1 definition or >=2 operator levels, or a clean grammar with a positive corner case (placeholder last in a word, specialised name with plain command twin); distinct by (variant, grammar tree).",
    );
    run.assumptions.push("cycle cases are judged through the binary only".into());
    run.shards = 3;
    run.shrink_iters = 150;
    run.enumerate("regress", load_regress("C08"), false, case_regress);
    run.enumerate(
        "known-finding-witnesses",
        vec![("F-juxtaposed-literal-through-definition", "cmd <N>;\n<N> = x<Y>;\n<Y> = b;\n", "SubwordSpaces")],
        false,
        case_witness,
    );
    if !run.failed() {
        run.random("binary", tier.pick(400, 6_000), 600, |b| case(b, true));
    }
    run.shards = nshards();
    run.shrink_iters = 3000;
    if !run.failed() {
        run.random("library", tier.pick(10_000, 400_000), 600, |b| case(b, false));
    }
    let code = run.finish();
    cleanup_scratch();
    code
}

pub fn replay(doc: &serde_json::Value) -> i32 {
    let d = if doc.get("detail").is_some() { &doc["detail"] } else { doc };
    let r = case_regress(d);
    cleanup_scratch();
    match r {
        Outcome::Fail(f) => {
            println!("VIOLATION property=C08 replay=(given) {}", f.msg);
            1
        }
        Outcome::Broken(_) => 2,
        _ => 0,
    }
}
