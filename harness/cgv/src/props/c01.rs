//! C01 — bash completions produced by the emitted script equal the grammar's meaning.

use crate::ast::*;
use crate::bashdrv::{self, Query, DEFAULT_WORDBREAKS};
use crate::bin::*;
use crate::engine::*;
use crate::gen_clean::{gen_clean, Profile, Vocab};
use crate::interp::{self, CmdOut, Expect};
use crate::model::{self, Built, Sym};
use crate::print::*;
use crate::src::Src;
use serde_json::json;
use std::collections::BTreeSet;

pub fn profile() -> Profile {
    let mut p = Profile::general();
    p.exec_cmds = true;
    p.prefix_free_words = true;
    p.unique_points = true;
    p.max_nodes = 30;
    p.w = [6, 6, 5, 4, 3, 3, 6, 4, 2, 4, 2, 3];
    p
}

/// fixed outputs of the commands of a grammar generated with `exec_cmds`
pub fn cmd_outputs(g: &G, v: &Vocab) -> CmdOut {
    let mut m = CmdOut::new();
    for e in g.exprs() {
        e.walk(&mut |x| {
            if let E::Cmd(t) = x {
                if let Some(spec) = v.cmds.iter().find(|c| &c.text == t) {
                    m.insert(t.clone(), spec.lines.iter().map(|(c, _)| c.clone()).collect());
                } else if let Some(rest) = t.strip_prefix("echo ") {
                    m.insert(t.clone(), vec![rest.trim().to_string()]);
                }
            }
        });
    }
    // built-in file/directory completion runs in an empty directory
    m.insert(model::builtin_marker("PATH"), vec![]);
    m.insert(model::builtin_marker("DIRECTORY"), vec![]);
    m
}

const FOREIGN: [&str; 6] = ["zzfoo", "--nope", "q9", "x=y", "A", "foo.bar"];

/// a complete word the symbol reads (None: a command without candidates)
pub fn word_for(s: &mut Src, b: &Built, cmds: &CmdOut, sym: &Sym) -> Option<String> {
    match sym {
        Sym::Lit { text, .. } => Some(text.clone()),
        Sym::Cmd { text, .. } => {
            let c = cmds.get(text)?;
            if c.is_empty() {
                None
            } else {
                Some(s.pick(c).clone())
            }
        }
        Sym::Any => Some(s.pick(&FOREIGN).to_string()),
        Sym::Word { canon, .. } => {
            let sub = b.words.get(canon)?;
            let mut q = sub.start;
            let mut out = String::new();
            for _ in 0..12 {
                if sub.accept[q] && (sub.trans[q].is_empty() || s.chance(1, 2)) {
                    return Some(out);
                }
                let row: Vec<(&Sym, &usize)> = sub.trans[q].iter().collect();
                if row.is_empty() {
                    break;
                }
                let (sy, r) = row[s.below(row.len())];
                match sy {
                    Sym::Lit { text, .. } => out.push_str(text),
                    Sym::Cmd { text, .. } => {
                        let c = cmds.get(text)?;
                        if c.is_empty() {
                            return None;
                        }
                        out.push_str(s.pick(&c[..]).as_str());
                    }
                    Sym::Any => out.push_str("tail9"),
                    Sym::Word { .. } => return None,
                }
                q = *r;
            }
            if sub.accept[q] {
                Some(out)
            } else {
                None
            }
        }
    }
}

#[derive(Clone, Debug)]
pub struct GenQuery {
    pub words: Vec<String>,
    pub cur: String,
    pub kind: &'static str,
}

pub fn gen_queries(s: &mut Src, b: &Built, cmds: &CmdOut, n: usize) -> Vec<GenQuery> {
    let mut out = vec![];
    for _ in 0..n {
        let mut q = b.dfa.start;
        let mut words: Vec<String> = vec![];
        let steps = s.weighted(&[2, 4, 4, 3, 2, 1]);
        let mut alive = true;
        let mut kind = "walk";
        let mut trail: Vec<usize> = vec![];
        for k in 0..steps {
            let row: Vec<(&Sym, &usize)> = b.dfa.trans[q].iter().collect();
            if row.is_empty() {
                break;
            }
            if s.chance(1, 10) {
                words.push(s.pick(&FOREIGN).to_string());
                alive = false;
                kind = if k + 1 == steps { "foreign_last" } else { "foreign_inside" };
                if s.bool() {
                    break;
                }
                continue;
            }
            if !alive {
                words.push(s.pick(&FOREIGN).to_string());
                continue;
            }
            let (sym, r) = row[s.below(row.len())];
            match word_for(s, b, cmds, sym) {
                Some(w) if !w.is_empty() => {
                    if matches!(sym, Sym::Word { .. }) && s.chance(1, 12) && w.len() > 2 {
                        // a truncated word
                        let cut = 1 + s.below(w.len() - 1);
                        let mut c = cut;
                        while !w.is_char_boundary(c) {
                            c -= 1;
                        }
                        words.push(w[..c].to_string());
                        alive = false;
                        kind = "truncated_word";
                    } else {
                        words.push(w);
                        trail.push(q);
                        q = *r;
                    }
                }
                _ => break,
            }
        }
        // a walk that ran into a state where nothing can follow says little: usually step back one word
        if alive && b.dfa.trans[q].is_empty() && !trail.is_empty() && trail.len() == words.len() && s.chance(3, 4) {
            q = trail.pop().unwrap();
            words.pop();
        }
        // the cursor word
        let cur = if alive {
            let row: Vec<(&Sym, &usize)> = b.dfa.trans[q].iter().collect();
            if row.is_empty() || s.chance(1, 8) {
                if s.bool() {
                    String::new()
                } else {
                    s.pick(&["z", "--", "q", "-"]).to_string()
                }
            } else {
                let (sym, _) = row[s.below(row.len())];
                match word_for(s, b, cmds, sym) {
                    Some(w) => {
                        let mut c = s.below(w.len() + 1);
                        while !w.is_char_boundary(c) {
                            c -= 1;
                        }
                        w[..c].to_string()
                    }
                    None => String::new(),
                }
            }
        } else if s.bool() {
            String::new()
        } else {
            "a".to_string()
        };
        out.push(GenQuery { words, cur, kind });
    }
    out
}

pub fn compile_bash(text: &str) -> Result<String, Outcome> {
    let sc = Scratch::new();
    let r = compile_text(text, "bash", &sc).map_err(|e| Outcome::Broken(format!("cannot run binary: {e}")))?;
    if r.timed_out {
        return Err(Outcome::Broken("complgen timed out".into()));
    }
    if r.status != Some(0) {
        return Err(Outcome::Skip(format!("rejected by complgen (C08's business): {}", r.stderr_s().lines().next().unwrap_or(""))));
    }
    Ok(r.stdout_s())
}

/// alternative expectations that identify the two known findings
fn classify_known(b: &Built, cmds: &CmdOut, q: &GenQuery, wb: &str, observed: &BTreeSet<String>) -> Option<&'static str> {
    let w = interp::walk(b, cmds, &q.words);
    // (1) a word directly before the cursor that no literal, word or command candidate matches is skipped
    // when the state expects a command (the emitted loop breaks out before it looks at anything else)
    if !q.words.is_empty() && w.trail.len() == q.words.len() && w.ambiguous.is_none() {
        let at = *w.trail.last()?;
        let last = q.words.last()?;
        // literals and within-word expressions are tried first; the break sits inside the loop over the
        // state's commands, so one command with candidates that does not match the word is enough, even
        // if another command (tried later) or an any-word placeholder would have matched it
        let read_by_other = interp::readers(b, cmds, at, last).iter().any(|(s, _)| matches!(s, Sym::Lit { .. } | Sym::Word { .. }));
        let has_cmd = b.dfa.trans[at].iter().any(|(s, _)| matches!(s, Sym::Cmd { text, .. } if cmds.get(text).map(|c| !c.is_empty() && !c.iter().any(|x| x == last)).unwrap_or(false)));
        if has_cmd && !read_by_other {
            let by = interp::candidates_by_level(b, cmds, at, &q.cur);
            let first: BTreeSet<String> = by.into_iter().next().map(|(_, s)| s).unwrap_or_default().into_iter().map(|c| interp::strip_wordbreaks(&q.cur, wb, &c)).collect();
            if &first == observed {
                return Some("F-unmatched-word-skipped-before-command");
            }
        }
    }
    // (2) a word that ends inside a within-word automaton counts as matched (and within-word expressions are
    // tried before commands and placeholders): follow the command line the way the script does
    if interp::truncated_region(b, cmds, &q.words) {
        let mut st = Some(b.dfa.start);
        for word in &q.words {
            st = st.and_then(|s| {
                // literal first, then (possibly truncated) within-word expressions, then the rest
                let rs = interp::readers(b, cmds, s, word);
                if let Some((_, t)) = rs.iter().find(|(sy, _)| matches!(sy, Sym::Lit { .. })) {
                    return Some(*t);
                }
                for (sym, r) in &b.dfa.trans[s] {
                    if let Sym::Word { canon, .. } = sym {
                        if let Some(sub) = b.words.get(canon) {
                            if interp::word_reads(sub, cmds, word) || interp::word_truncated(sub, cmds, word) {
                                return Some(*r);
                            }
                        }
                    }
                }
                rs.first().map(|(_, t)| *t)
            });
        }
        match st {
            Some(s) => {
                let by = interp::candidates_by_level(b, cmds, s, &q.cur);
                let first: BTreeSet<String> = by.into_iter().next().map(|(_, s)| s).unwrap_or_default().into_iter().map(|c| interp::strip_wordbreaks(&q.cur, wb, &c)).collect();
                if &first == observed {
                    return Some("F-truncated-word-accepted");
                }
            }
            // having accepted the truncated word the script stands in a state from which a later word of
            // the line cannot be read: it offers nothing (the same finding, one word later)
            None => {
                if observed.is_empty() {
                    return Some("F-truncated-word-accepted");
                }
            }
        }
    }
    None
}

pub struct Judged {
    pub evals: u64,
    pub keys: Vec<String>,
    pub classes: Vec<String>,
    pub known: Vec<(String, String)>,
    pub ambiguous: u64,
}

/// run the queries against the script and compare with the reference interpreter
pub fn judge_queries(text: &str, g: &G, script: &str, b: &Built, cmds: &CmdOut, queries: &[GenQuery], prop: &str) -> Result<Judged, Outcome> {
    // bash queries are the scarce resource on this box (~20/s in total, forks do not run in parallel): the
    // empty-COMP_WORDBREAKS variant is run when the typed word contains a word-break character (only then
    // can the two configurations differ) and for every 6th query otherwise; duplicates are dropped
    let mut qs: Vec<Query> = vec![];
    let mut owner: Vec<(usize, bool)> = vec![];
    let mut seen: BTreeSet<(Vec<String>, String, bool)> = BTreeSet::new();
    for (qi, q) in queries.iter().enumerate() {
        let has_wb = q.cur.chars().any(|c| DEFAULT_WORDBREAKS.contains(c));
        for (empty_wb, wb) in [(false, None), (true, Some(String::new()))] {
            if empty_wb && !has_wb && qi % 6 != 0 {
                continue;
            }
            if !seen.insert((q.words.clone(), q.cur.clone(), empty_wb)) {
                continue;
            }
            qs.push(Query { words: q.words.clone(), cur: q.cur.clone(), wordbreaks: wb });
            owner.push((qi, empty_wb));
        }
    }
    let sess = bashdrv::Session { script, func: "_cmd".into(), command: "cmd".into(), prelude: String::new() };
    let replies = match bashdrv::run(&sess, &qs) {
        Ok(r) => r,
        Err(bashdrv::DrvError::Infra(e)) => return Err(Outcome::Broken(e)),
        Err(bashdrv::DrvError::Source(rc, e)) => {
            return Err(Outcome::Fail(Failure::new(format!("sourcing the emitted script in bash failed ({rc}): {e}"), json!({"text": text, "g": g.to_json()}))))
        }
    };
    let known_ok = known_ids(prop);
    let mut j = Judged { evals: 0, keys: vec![], classes: vec![], known: vec![], ambiguous: 0 };
    for (i, rep) in replies.iter().enumerate() {
        let (qi, empty_wb) = owner[i];
        let q = &queries[qi];
        let wb = if !empty_wb { DEFAULT_WORDBREAKS } else { "" };
        let want = interp::expect(b, cmds, &q.words, &q.cur, wb);
        let observed: BTreeSet<String> = rep.compreply.iter().cloned().collect();
        let detail = || {
            json!({"text": text, "g": g.to_json(), "words": q.words, "cur": q.cur, "wordbreaks": if !empty_wb { "default" } else { "empty" },
                   "observed": {"rc": rep.rc, "compreply": rep.compreply, "stderr": rep.stderr_note}, "expected": format!("{:?}", want), "cmds": cmds})
        };
        let want_set: BTreeSet<String> = match &want {
            Expect::Ambiguous(_) => {
                j.ambiguous += 1;
                continue;
            }
            Expect::Dead { .. } => BTreeSet::new(),
            Expect::Candidates(c) => c.clone(),
        };
        j.evals += 1;
        let nothing_ok = want_set.is_empty() && observed.is_empty();
        if !(nothing_ok || (rep.rc == 0 && observed == want_set)) {
            if let Some(id) = classify_known(b, cmds, q, wb, &observed) {
                if known_ok.contains(id) {
                    j.known.push((id.to_string(), finding_what(id)));
                    continue;
                }
            }
            return Err(Outcome::Fail(Failure::new(
                format!(
                    "bash offers {:?} (rc {}) after words {:?} + typed {:?} (COMP_WORDBREAKS {}); the grammar prescribes {}",
                    rep.compreply,
                    rep.rc,
                    q.words,
                    q.cur,
                    if !empty_wb { "default" } else { "empty" },
                    match &want {
                        Expect::Dead { at_word } => format!("nothing (word {} cannot be matched)", at_word + 1),
                        _ => format!("{:?}", want_set),
                    }
                ),
                detail(),
            )));
        }
        if !q.words.is_empty() && (!want_set.is_empty() || matches!(want, Expect::Dead { .. })) {
            j.keys.push(format!("{}|{:?}|{}|{}", crate::src::hash_str(text), q.words, q.cur, empty_wb));
        }
        j.classes.push(format!("query:{}", q.kind));
        if matches!(want, Expect::Dead { .. }) {
            j.classes.push("expected:nothing(dead walk)".into());
        } else if want_set.is_empty() {
            j.classes.push("expected:empty".into());
        } else {
            j.classes.push("expected:candidates".into());
        }
    }
    Ok(j)
}

/// two within-word expressions with the same table shape whose alternatives are split over the || levels
/// differently (the emitters may share one table set between same-shaped expressions)
fn add_level_twins(g: &mut G) -> Vec<GenQuery> {
    let (a, b, c, d) = (lit("va"), lit("vb"), lit("wc"), lit("wd"));
    let w1 = E::Word(vec![lit("--lp="), E::Fb(vec![a.clone(), b.clone()]), E::Alt(vec![c.clone(), d.clone()])]);
    let w2 = E::Word(vec![lit("--lq="), E::Alt(vec![a, b]), E::Fb(vec![c, d])]);
    g.stmts.push(Stmt::Call { name: "cmd".into(), e: E::Seq(vec![lit("lvx"), E::Alt(vec![w1, w2]), E::Opt(Box::new(lit("tl")))]) });
    ["--lp=", "--lp=va", "--lq=", "--lq=va", "--lq=vb", "--l"].iter().map(|c| GenQuery { words: vec!["lvx".into()], cur: c.to_string(), kind: "level_twins" }).collect()
}

fn case(bytes: &[u8]) -> Outcome {
    let n = bytes.len();
    let (ga, qb) = bytes.split_at(n * 2 / 3);
    let (mut g, v) = gen_clean(&mut Src::new(ga), &profile());
    let mut extra = vec![];
    if qb.first().map(|b| b % 3 == 0).unwrap_or(false) && !g.exprs().any(|e| e.has(&|x| matches!(x, E::Lit { text, .. } if text == "lvx"))) {
        let all = add_level_twins(&mut g);
        let k = (qb.get(1).copied().unwrap_or(0) as usize) % all.len();
        extra = vec![all[k].clone(), all[(k + 1) % all.len()].clone(), all[(k + 3) % all.len()].clone()];
    }
    let text = print_minimal(&g);
    judge_grammar_with(&g, &v, &text, qb, 10, extra)
}

fn judge_grammar(g: &G, v: &Vocab, text: &str, qbytes: &[u8], nq: usize) -> Outcome {
    judge_grammar_with(g, v, text, qbytes, nq, vec![])
}

fn judge_grammar_with(g: &G, v: &Vocab, text: &str, qbytes: &[u8], nq: usize, extra: Vec<GenQuery>) -> Outcome {
    let Ok(b) = model::denote(g, "bash") else { return Outcome::Skip("model cannot elaborate".into()) };
    if interp::same_literal_two_labels(&b) {
        return Outcome::Skip("outside the stated domain: the same literal is expected at one point with two labels (C09's region)".into());
    }
    let cmds = cmd_outputs(g, v);
    let script = match compile_bash(text) {
        Ok(s) => s,
        Err(o) => return o,
    };
    let mut queries = gen_queries(&mut Src::new(qbytes), &b, &cmds, nq);
    queries.extend(extra);
    let j = match judge_queries(text, g, &script, &b, &cmds, &queries, "C01") {
        Ok(j) => j,
        Err(o) => return o,
    };
    let mut c = Case::new("");
    c.evals = j.evals.max(1);
    c.extra_keys = j.keys;
    for k in j.classes {
        c.class(k);
    }
    c.known = j.known;
    if j.ambiguous > 0 {
        c.exclude("ambiguous_excluded (a word with two readings: C09/C12's region)", j.ambiguous);
    }
    for f in super::common::features(g) {
        c.class(format!("grammar:{f}"));
    }
    c.sample = Some(json!({"text": text, "queries": queries.iter().take(3).map(|q| json!({"words": q.words, "cur": q.cur})).collect::<Vec<_>>()}));
    Outcome::Pass(c)
}

/// regress / witness cases: {"text": grammar, "cmds": {text: [cands]}, "queries": [{"words": [...], "cur": "..."}]}
fn case_regress(doc: &serde_json::Value) -> Outcome {
    let Some(g) = super::common::grammar_from_doc(doc) else { return Outcome::Broken("bad regress file".into()) };
    let text = print_minimal(&g);
    let Ok(b) = model::denote(&g, "bash") else { return Outcome::Broken("model".into()) };
    let mut cmds = CmdOut::new();
    if let Some(m) = doc["cmds"].as_object() {
        for (k, v) in m {
            cmds.insert(k.clone(), v.as_array().map(|a| a.iter().filter_map(|x| x.as_str().map(|s| s.to_string())).collect()).unwrap_or_default());
        }
    }
    cmds.insert(model::builtin_marker("PATH"), vec![]);
    cmds.insert(model::builtin_marker("DIRECTORY"), vec![]);
    let script = match compile_bash(&text) {
        Ok(s) => s,
        Err(o) => return o,
    };
    let queries: Vec<GenQuery> = doc["queries"]
        .as_array()
        .map(|a| {
            a.iter()
                .map(|q| GenQuery {
                    words: q["words"].as_array().map(|w| w.iter().filter_map(|x| x.as_str().map(|s| s.to_string())).collect()).unwrap_or_default(),
                    cur: q["cur"].as_str().unwrap_or("").to_string(),
                    kind: "regress",
                })
                .collect()
        })
        .unwrap_or_default();
    match judge_queries(&text, &g, &script, &b, &cmds, &queries, "C01") {
        Ok(j) => {
            let mut c = Case::new(text.clone());
            c.evals = j.evals.max(1);
            c.nontrivial = true;
            c.known = j.known;
            c.sample = Some(json!({"text": text}));
            Outcome::Pass(c)
        }
        Err(o) => o,
    }
}

pub fn run(tier: Tier, seed: u64) -> i32 {
    let mut run = Run::new(
        "C01",
        tier,
        seed,
        "exploration",
        "clean grammars on C01's stated domain (literals prefix-free per word, distinct alternatives, no twin words; sequence, |, ||, [], ..., words, definitions of any depth in shuffled order, descriptions, commands with fixed output, @bash specialisations, PATH/DIRECTORY in an empty directory) compiled with the real binary; per grammar 12 generated command lines (random walks through the reference automaton emitting literals, within-word concatenations, command candidates, foreign words, truncated words; cursor word = a random prefix, empty to full, of a possible next item, or a foreign prefix) x COMP_WORDBREAKS {default, empty}, executed in real bash 5.2 (script sourced once, every query in a subshell, 3-line _get_comp_words_by_ref stub). Oracle: COMPREPLY as a set equals the reference interpreter's answer (first || level with a candidate extending the prefix; literals get a trailing blank; candidates lose the typed text up to its last word-break character; nothing when the words cannot be matched; a word equal to an expected literal is read as that literal); queries where a word has two readings of different kinds are counted as ambiguous_excluded. Non-trivial: >=1 complete word before the cursor and (non-empty expectation or a deliberately dead walk); distinct by (grammar, words, prefix, wordbreaks).",
    );
    run.assumptions.push("bash 5.2 non-interactive, bash-completion replaced by the stub the property names; fixed command outputs".into());
    run.shrink_iters = 40;
    run.shards = 2;
    run.enumerate("regress", load_regress("C01"), false, case_regress);
    if !run.failed() {
        run.random("bash", tier.pick(150, 2_500), 500, case);
    }
    let code = run.finish();
    cleanup_scratch();
    code
}

pub fn replay(doc: &serde_json::Value) -> i32 {
    let d = if doc.get("detail").is_some() { &doc["detail"] } else { doc };
    let mut d2 = d.clone();
    if d2.get("queries").is_none() {
        d2["queries"] = json!([{"words": d["words"], "cur": d["cur"]}]);
    }
    let r = case_regress(&d2);
    cleanup_scratch();
    match r {
        Outcome::Fail(f) => {
            println!("VIOLATION property=C01 replay=(given) {}", f.msg);
            1
        }
        Outcome::Broken(_) => 2,
        _ => 0,
    }
}
