//! Helpers shared by the in-process properties.

use crate::ast::*;
use crate::gen_clean::*;
use crate::model::*;
use crate::print::*;
use crate::src::Src;

pub struct CleanCase {
    pub g: G,
    pub vocab: Vocab,
    pub text: String,
}

/// decode a clean grammar (first 3/4 of the stream) and a layout (rest)
pub fn clean_case(bytes: &[u8], p: &Profile, random_layout: bool) -> CleanCase {
    let cut = bytes.len() * 3 / 4;
    let (a, b) = bytes.split_at(cut);
    let mut s = Src::new(a);
    let (g, vocab) = gen_clean(&mut s, p);
    let text = if random_layout {
        let mut st = Style::random(b);
        print_grammar(&g, &mut st, None).text
    } else {
        print_minimal(&g)
    };
    CleanCase { g, vocab, text }
}

pub fn features(g: &G) -> Vec<&'static str> {
    let mut f = vec![];
    let mut has_descr = false;
    let mut has_fb = false;
    let mut has_word = false;
    let mut has_cmd = false;
    let mut has_group = false;
    let mut has_nt = false;
    for e in g.exprs() {
        e.walk(&mut |x| match x {
            E::Lit { descr: Some(_), .. } => has_descr = true,
            E::Fb(_) => has_fb = true,
            E::Word(_) => has_word = true,
            E::Cmd(_) => has_cmd = true,
            E::Descr(..) => {
                has_group = true;
                has_descr = true
            }
            E::Nt(_) => has_nt = true,
            _ => {}
        });
    }
    if has_descr {
        f.push("description");
    }
    if has_fb {
        f.push("fallback");
    }
    if has_word {
        f.push("word");
    }
    if has_cmd {
        f.push("command");
    }
    if has_group {
        f.push("group_description");
    }
    if has_nt {
        f.push("nonterminal");
    }
    if g.defs().count() > 0 {
        f.push("definition");
    }
    if g.defs().any(|(_, sh, _)| sh.is_some()) {
        f.push("specialisation");
    }
    if g.calls().count() > 1 {
        f.push("multi_variant");
    }
    f
}

pub fn max_level(d: &Ldfa) -> usize {
    let mut m = 0;
    for row in &d.trans {
        for (s, _) in row {
            if let Some(l) = s.level() {
                m = m.max(l);
            }
        }
    }
    m
}
