//! C16 — the --dfa and --regex Graphviz dumps are well-formed and show the real automaton.

use super::common::*;
use crate::ast::*;
use crate::bin::*;
use crate::dot;
use crate::engine::*;
use crate::gen_clean::Profile;
use crate::model;
use crate::obs;
use complgen::dfa::{Inp, DFA};
use serde_json::json;
use std::collections::{BTreeMap, BTreeSet};

pub struct Dumps {
    pub min: DFA,
    pub dfa_dot: String,
    pub regex_dot: String,
}

pub fn dumps(text: &str, shell: &str) -> Result<Dumps, String> {
    let r = std::panic::catch_unwind(|| -> Result<Dumps, String> {
        let g = complgen::parse::Grammar::parse(text).map_err(|e| format!("{e:?}"))?;
        let v = complgen::check::ValidGrammar::from_grammar(g, obs::shell_of(shell)).map_err(|e| format!("{e:?}"))?;
        let mut pool = complgen::regex::RegexInternPool::default();
        let regex = complgen::regex::Regex::from_valid_grammar(&v, &mut pool).map_err(|e| format!("{e:?}"))?;
        let mut rd: Vec<u8> = vec![];
        regex.to_dot(&mut rd, &pool).map_err(|e| format!("{e:?}"))?;
        let raw = DFA::from_regex_raw(regex, &pool).map_err(|e| format!("{e:?}"))?;
        let min = raw.minimize();
        let mut dd: Vec<u8> = vec![];
        min.to_dot(&mut dd, obs::array_start(shell)).map_err(|e| format!("{e:?}"))?;
        min.check_ambiguity_best_effort().map_err(|e| format!("{e:?}"))?;
        Ok(Dumps { min, dfa_dot: String::from_utf8_lossy(&dd).to_string(), regex_dot: String::from_utf8_lossy(&rd).to_string() })
    });
    match r {
        Ok(x) => x,
        Err(_) => Err("panic".into()),
    }
}

fn rust_debug(s: &str) -> String {
    let d = format!("{:?}", s);
    d[1..d.len() - 1].to_string()
}

fn label_matches(inp: &Inp, label: &str) -> bool {
    match inp {
        Inp::Literal { literal, description, fallback_level } => {
            // literals contain no blanks: "<literal> [<description>] (<level>)"
            let Some(rest) = label.strip_prefix(literal.as_str()) else { return false };
            let Some(rest) = rest.strip_suffix(&format!("({fallback_level})")) else { return false };
            if !rest.starts_with(' ') {
                return false;
            }
            let mid = rest.trim();
            match description {
                Some(d) => mid == format!("{:?}", d.as_str()) || mid == format!("\"{}\"", d.as_str()) || mid == d.as_str(),
                None => mid.is_empty(),
            }
        }
        Inp::Command { cmd, .. } | Inp::Compadd { cmd, .. } => {
            // the command in the grammar's own {{{ }}} notation (an optional tag may follow)
            let Some(rest) = label.strip_prefix("{{{") else { return false };
            match rest.rfind("}}}") {
                Some(i) => rest[..i].trim() == cmd.trim(),
                None => false,
            }
        }
        Inp::Star => label.trim() == "*",
        Inp::Subword { .. } => false,
    }
}

/// check the (sub)graph with node prefix `prefix` in `scope` against automaton `d`
fn check_dfa_graph(g: &dot::Graph, d: &DFA, prefix: &str, scope: &[String], base: u32, shell: &str) -> Result<(), String> {
    let v = obs::view(d, shell);
    let node_id = |s: u32| format!("_{prefix}{}", s + base);
    let mut expected_nodes: BTreeSet<String> = BTreeSet::new();
    for (i, s) in v.states.iter().enumerate() {
        let id = node_id(*s);
        expected_nodes.insert(id.clone());
        let Some(n) = g.nodes.get(&id) else { return Err(format!("state {} has no node {id}", s + base)) };
        if !n.declared || n.scope != scope {
            return Err(format!("node {id} is not declared in its own (sub)graph"));
        }
        let want_label = format!("{prefix}{}", s + base);
        if n.attrs.get("label").map(|l| dot::decode_label(l)) != Some(want_label.clone()) {
            return Err(format!("node {id} is labelled {:?}, expected {want_label:?}", n.attrs.get("label")));
        }
        let shape = n.attrs.get("shape").map(|s| s.as_str()).unwrap_or("ellipse");
        let is_start = i == v.structure.start;
        let acc = v.structure.accept[i];
        let ok = match (is_start, acc) {
            (true, true) => shape == "doubleoctagon",
            (true, false) => shape == "octagon",
            (false, true) => shape == "doublecircle",
            (false, false) => shape == "circle",
        };
        if !ok {
            return Err(format!("node {id} (start: {is_start}, accepting: {acc}) has shape {shape}"));
        }
    }
    let here: BTreeSet<String> = g.nodes.values().filter(|n| n.scope == scope && n.declared).map(|n| n.id.clone()).collect();
    if here != expected_nodes {
        return Err(format!("nodes declared in this (sub)graph: {:?}, states of the automaton: {:?}", here, expected_nodes));
    }
    // labelled edges <-> non-word transitions
    let mut labelled: Vec<(&dot::Edge, bool)> = g.edges.iter().filter(|e| e.scope == scope && e.attrs.get("style").map(|s| s != "dashed").unwrap_or(true)).map(|e| (e, false)).collect();
    let mut dashed: BTreeSet<(String, String)> = g.edges.iter().filter(|e| e.scope == scope && e.attrs.get("style").map(|s| s == "dashed").unwrap_or(false)).map(|e| (e.from.clone(), e.to.clone())).collect();
    let mut ntrans = 0;
    let mut word_trans: Vec<(u32, u32, String, u32)> = vec![]; // (from, to, subdfa identity, structure symbol)
    for (fi, row) in v.structure.trans.iter().enumerate() {
        for (k, ti) in row {
            let inp = &v.inputs[*k as usize];
            let (from, to) = (v.states[fi], v.states[*ti]);
            if let Inp::Subword { subdfa, .. } = inp {
                word_trans.push((from, to, format!("{:?}", subdfa), *k));
                continue;
            }
            ntrans += 1;
            let (fid, tid) = (node_id(from), node_id(to));
            let hit = labelled.iter_mut().find(|(e, used)| !*used && e.from == fid && e.to == tid && e.attrs.get("label").map(|l| label_matches(inp, &dot::decode_label(l))).unwrap_or(false));
            match hit {
                Some((_, used)) => *used = true,
                None => return Err(format!("transition {} -> {} on {:?} has no edge {fid} -> {tid} whose label shows it", from + base, to + base, inp)),
            }
        }
    }
    if labelled.len() != ntrans {
        let extra: Vec<String> = labelled.iter().filter(|(_, u)| !*u).map(|(e, _)| format!("{} -> {} {:?}", e.from, e.to, e.attrs.get("label"))).collect();
        return Err(format!("{} labelled edges for {} transitions; unmatched: {:?}", labelled.len(), ntrans, extra));
    }
    // clusters <-> distinct within-word automata
    let clusters: Vec<String> = g.subgraphs.iter().filter(|(p, _)| p.len() == scope.len() + 1 && p[..scope.len()] == *scope).map(|(p, _)| p.last().unwrap().clone()).collect();
    let mut subs: BTreeMap<String, u32> = BTreeMap::new();
    for (_, _, ident, k) in &word_trans {
        subs.entry(ident.clone()).or_insert(*k);
    }
    if clusters.len() != subs.len() {
        return Err(format!("{} clusters for {} distinct within-word automata", clusters.len(), subs.len()));
    }
    let mut cluster_of: BTreeMap<String, String> = BTreeMap::new();
    let mut taken: BTreeSet<String> = BTreeSet::new();
    let has_dashed = |a: &str, b: &str| g.edges.iter().any(|e| e.scope == scope && e.attrs.get("style").map(|x| x == "dashed").unwrap_or(false) && e.from == a && e.to == b);
    for (ident, k) in &subs {
        let Inp::Subword { subdfa, .. } = &v.inputs[*k as usize] else { unreachable!() };
        let sub = d.subdfas.verif_lookup(*subdfa);
        let sv = &v.subviews[k];
        let mut found = None;
        let mut last_err = String::new();
        for c in &clusters {
            if taken.contains(c) {
                continue;
            }
            let Some(j) = c.strip_prefix(&format!("cluster_{prefix}")) else {
                last_err = format!("cluster name {c:?} does not start with 'cluster_{prefix}'");
                continue;
            };
            let mut sc = scope.to_vec();
            sc.push(c.clone());
            if let Err(e) = check_dfa_graph(g, sub, &format!("{j}_"), &sc, base, shell) {
                last_err = format!("cluster {c}: {e}");
                continue;
            }
            // two clusters can show the same picture (same word language written in a different order):
            // the entry edges decide which one belongs to this automaton
            // (command labels do not show the fallback level, so two different automata can also look alike)
            // exact comparison (a superset test would let the first of two look-alike clusters be taken by the
            // automaton that has fewer entry points, leaving none for the other)
            let start_id = format!("_{j}_{}", sv.states[sv.structure.start] + base);
            let want_from: BTreeSet<String> = word_trans.iter().filter(|(_, _, id, _)| id == ident).map(|(from, _, _, _)| node_id(*from)).collect();
            let want_to: BTreeSet<String> = word_trans.iter().filter(|(_, _, id, _)| id == ident).map(|(_, to, _, _)| node_id(*to)).collect();
            let is_dashed = |e: &&dot::Edge| e.scope == scope && e.attrs.get("style").map(|x| x == "dashed").unwrap_or(false);
            let got_from: BTreeSet<String> = g.edges.iter().filter(is_dashed).filter(|e| e.to == start_id).map(|e| e.from.clone()).collect();
            let exits_ok = sv.states.iter().enumerate().filter(|(i, _)| sv.structure.accept[*i]).all(|(_, s)| {
                let acc_id = format!("_{j}_{}", s + base);
                let got_to: BTreeSet<String> = g.edges.iter().filter(is_dashed).filter(|e| e.from == acc_id).map(|e| e.to.clone()).collect();
                got_to == want_to
            });
            let entries_ok = got_from == want_from && exits_ok;
            let _ = &has_dashed;
            if !entries_ok {
                last_err = format!("cluster {c} shows the automaton but the dashed entry / exit edges lead elsewhere");
                continue;
            }
            found = Some((c.clone(), j.to_string()));
            break;
        }
        match found {
            Some((c, j)) => {
                taken.insert(c);
                cluster_of.insert(ident.clone(), j);
            }
            None => return Err(format!("no cluster shows the within-word automaton {ident} with its entry edges ({last_err})")),
        }
    }
    // dashed edges: entry into the cluster's start node, exits from each of its accepting nodes
    for (from, to, ident, k) in &word_trans {
        let j = &cluster_of[ident];
        let sv = &v.subviews[k];
        let entry = (node_id(*from), format!("_{j}_{}", sv.states[sv.structure.start] + base));
        if !dashed.contains(&entry) && !g.edges.iter().any(|e| e.scope == scope && e.from == entry.0 && e.to == entry.1) {
            return Err(format!("no dashed edge {} -> {} into the cluster of the word expected at state {}", entry.0, entry.1, from + base));
        }
        for (i, s) in sv.states.iter().enumerate() {
            if sv.structure.accept[i] {
                let exit = (format!("_{j}_{}", s + base), node_id(*to));
                if !g.edges.iter().any(|e| e.scope == scope && e.attrs.get("style").map(|x| x == "dashed").unwrap_or(false) && e.from == exit.0 && e.to == exit.1) {
                    return Err(format!("no dashed edge {} -> {} leaving the accepting state {} of the within-word automaton", exit.0, exit.1, s + base));
                }
            }
        }
    }
    // no other dashed edges
    let mut expected_dashed: BTreeSet<(String, String)> = BTreeSet::new();
    for (from, to, ident, k) in &word_trans {
        let j = &cluster_of[ident];
        let sv = &v.subviews[k];
        expected_dashed.insert((node_id(*from), format!("_{j}_{}", sv.states[sv.structure.start] + base)));
        for (i, s) in sv.states.iter().enumerate() {
            if sv.structure.accept[i] {
                expected_dashed.insert((format!("_{j}_{}", s + base), node_id(*to)));
            }
        }
    }
    dashed.retain(|e| !expected_dashed.contains(e));
    if !dashed.is_empty() {
        return Err(format!("dashed edges that correspond to nothing: {:?}", dashed));
    }
    Ok(())
}

pub fn check_dfa_dot(text: &str, d: &DFA, shell: &str) -> Result<usize, String> {
    let g = dot::parse(text).map_err(|e| format!("the --dfa file is not a valid digraph: {e}"))?;
    for e in &g.edges {
        for n in [&e.from, &e.to] {
            if !g.nodes.get(n).map(|x| x.declared).unwrap_or(false) {
                return Err(format!("edge {} -> {} mentions {n}, which is not a declared node", e.from, e.to));
            }
        }
    }
    check_dfa_graph(&g, d, "", &[], obs::array_start(shell), shell)?;
    Ok(g.subgraphs.len())
}

/// every expected item of the grammar appears as a labelled node
pub fn check_regex_dot(text: &str, g: &G, shell: &str) -> Result<(), String> {
    let gr = dot::parse(text).map_err(|e| format!("the --regex file is not a valid digraph: {e}"))?;
    for e in &gr.edges {
        for n in [&e.from, &e.to] {
            if !gr.nodes.get(n).map(|x| x.declared).unwrap_or(false) {
                return Err(format!("edge {} -> {} mentions {n}, which is not a declared node", e.from, e.to));
            }
        }
    }
    let labels: Vec<String> = gr.nodes.values().filter_map(|n| n.attrs.get("label").map(|l| dot::decode_label(l))).collect();
    let Ok(x) = model::elaborate(g, shell) else { return Ok(()) };
    fn leaves(x: &model::X, out: &mut Vec<model::X>) {
        match x {
            model::X::Lit { .. } | model::X::Cmd { .. } | model::X::Any => out.push(x.clone()),
            model::X::Seq(v) | model::X::Alt(v) | model::X::Fb(v) | model::X::Word(v) => v.iter().for_each(|c| leaves(c, out)),
            model::X::Opt(c) | model::X::Many(c) => leaves(c, out),
        }
    }
    let mut ls = vec![];
    leaves(&x, &mut ls);
    for l in ls {
        let ok = match &l {
            model::X::Lit { text, descr } => labels.iter().any(|lab| {
                // `N: "text"` optionally followed by a line with the quoted description
                let Some((_, rest)) = lab.split_once(": ") else { return false };
                match descr {
                    None => rest == format!("\"{text}\""),
                    Some(d) => rest == format!("\"{text}\"\n\"{d}\""),
                }
            }),
            model::X::Cmd { text, .. } => text.starts_with("<builtin:") || labels.iter().any(|lab| lab.split_once(": ").map(|(_, r)| r.trim() == text.trim()).unwrap_or(false)),
            model::X::Any => labels.iter().any(|lab| lab.split_once(": ").map(|(_, r)| r.starts_with('<') && r.ends_with('>')).unwrap_or(false)),
            _ => true,
        };
        if !ok {
            return Err(format!("expected item {:?} does not appear as a labelled node of the --regex graph", l));
        }
    }
    Ok(())
}

fn needs_escape(g: &G) -> bool {
    let mut r = false;
    for e in g.exprs() {
        e.walk(&mut |x| match x {
            E::Lit { text, descr } => {
                if text.contains('"') || text.contains('\\') || descr.as_deref().map(|d| d.contains('"') || d.contains('\\')).unwrap_or(false) {
                    r = true
                }
            }
            E::Cmd(c) => {
                if c.contains('"') || c.contains('\\') {
                    r = true
                }
            }
            E::Descr(_, d) => {
                if d.contains('"') || d.contains('\\') {
                    r = true
                }
            }
            _ => {}
        });
    }
    r
}

pub fn profile() -> Profile {
    let mut p = Profile::general();
    p.special_lits = true;
    p.w = [6, 5, 5, 4, 3, 3, 7, 4, 2, 4, 2, 3];
    p
}

fn judge(g: &G, text: &str, with_bin: bool, salt: u8) -> Outcome {
    let mut c = Case::new(format!("{:?}", g));
    c.evals = 0;
    let esc = needs_escape(g);
    for shell in obs::SHELLS {
        let d = match dumps(text, shell) {
            Ok(d) => d,
            Err(e) => {
                c.exclude(if e == "panic" { "panic (C06)" } else { "rejected (C08)" }, 1);
                continue;
            }
        };
        let detail = |what: &str| json!({"text": text, "g": g.to_json(), "shell": shell, "file": what});
        c.evals += 2;
        match check_dfa_dot(&d.dfa_dot, &d.min, shell) {
            Ok(nclusters) => {
                if esc || nclusters > 0 {
                    c.extra_keys.push(format!("{shell}|{text}"));
                }
                if nclusters > 0 {
                    c.class(if obs::array_start(shell) == 1 { "clusters,base-1 shell" } else { "clusters,base-0 shell" });
                }
            }
            Err(e) => return Outcome::Fail(Failure::new(format!("--dfa dump for {shell}: {e}"), detail("dfa"))),
        }
        if let Err(e) = check_regex_dot(&d.regex_dot, g, shell) {
            return Outcome::Fail(Failure::new(format!("--regex dump for {shell}: {e}"), detail("regex")));
        }
        if with_bin && obs::SHELLS[(salt % 4) as usize] == shell {
            let sc = Scratch::new();
            let inp = sc.path("in.usage");
            let (dp, rp) = (sc.path("d.dot"), sc.path("r.dot"));
            let _ = std::fs::write(&inp, text);
            let r = complgen(
                &[format!("--{shell}"), "-".into(), inp.to_string_lossy().to_string(), "--dfa".into(), dp.to_string_lossy().to_string(), "--regex".into(), rp.to_string_lossy().to_string()],
                None,
                &[],
                None,
            );
            match r {
                Ok(o) if o.status == Some(0) => {
                    c.evals += 1;
                    c.class("binary_run");
                    let (bd, br) = (std::fs::read_to_string(&dp).unwrap_or_default(), std::fs::read_to_string(&rp).unwrap_or_default());
                    if bd != d.dfa_dot || br != d.regex_dot {
                        return Outcome::Fail(Failure::new(format!("complgen --{shell} --dfa/--regex wrote files that differ from the library's dumps of the same grammar"), detail("binary")));
                    }
                }
                Ok(o) => return Outcome::Fail(Failure::new(format!("complgen --{shell} --dfa --regex exits with {:?} on a grammar the library accepts: {}", o.status, o.stderr_s()), detail("binary"))),
                Err(e) => return Outcome::Broken(format!("cannot run binary: {e}")),
            }
        }
    }
    if c.evals == 0 {
        return Outcome::Skip("rejected".into());
    }
    if esc {
        c.class("label_needs_escape");
    }
    c.sample = Some(json!({"text": text}));
    Outcome::Pass(c)
}

fn case(bytes: &[u8], with_bin: bool) -> Outcome {
    let cc = clean_case(bytes, &profile(), false);
    judge(&cc.g, &cc.text, with_bin, bytes.first().copied().unwrap_or(0))
}

fn case_regress(doc: &serde_json::Value) -> Outcome {
    let Some(g) = super::common::grammar_from_doc(doc) else { return Outcome::Broken("bad regress file".into()) };
    let text = crate::print::print_minimal(&g);
    judge(&g, &text, true, 0)
}

pub fn run(tier: Tier, seed: u64) -> i32 {
    let mut run = Run::new(
        "C16",
        tier,
        seed,
        "exploration",
        "clean grammars whose literals, descriptions and commands contain quotes, backslashes and braces, with several within-word automata (twins included) x 4 shells. Both dumps are read with the harness's own DOT reader (graphviz scanner rules for quoted strings; node defaults apply at node creation). --dfa: per (sub)graph the declared nodes are exactly {state + base}, labelled with their number, the start node is an (double)octagon, accepting nodes are double shapes; labelled edges are in bijection with the non-word transitions of the library's minimised automaton and each decoded label shows the symbol's text, description and level; one cluster per distinct within-word automaton (matched by content); dashed edges are exactly: entry into the cluster's start node, exit from each accepting node of the cluster; every edge endpoint is a declared node. --regex: valid digraph, every edge endpoint declared, every expected item (literal with description, command, placeholder) of the elaborated grammar appears as a node with exactly that label. Part 'binary': the files written by complgen --dfa/--regex equal the library's dumps. Non-trivial: a label needs an escape or >=1 cluster; distinct by (shell, text).",
    );
    run.assumptions.push("graphviz itself is not installed: DOT validity is decided by the harness's reader".into());
    run.enumerate("regress", load_regress("C16"), false, case_regress);
    run.shards = 3;
    run.shrink_iters = 200;
    if !run.failed() {
        run.random("binary", tier.pick(120, 5_000), 600, |b| case(b, true));
    }
    run.shards = nshards();
    run.shrink_iters = 3000;
    if !run.failed() {
        run.random("library", tier.pick(40_000, 1_500_000), 600, |b| case(b, false));
    }
    let code = run.finish();
    cleanup_scratch();
    code
}

pub fn replay(doc: &serde_json::Value) -> i32 {
    let d = if doc.get("detail").is_some() { &doc["detail"] } else { doc };
    let r = case_regress(d);
    cleanup_scratch();
    match r {
        Outcome::Fail(f) => {
            println!("VIOLATION property=C16 replay=(given) {}", f.msg);
            1
        }
        Outcome::Broken(_) => 2,
        _ => 0,
    }
}
