//! C06 — the compiler never crashes or hangs: script + exit 0, or diagnostic + exit 1.

use super::common::*;
use crate::bin::*;
use crate::engine::*;
use crate::gen_clean::Profile;
use crate::mistakes::plant;
use crate::print::*;
use crate::src::Src;
use serde_json::json;

/// crude lexer of .usage text into mutation units
pub fn tokens(text: &str) -> Vec<String> {
    let cs: Vec<char> = text.chars().collect();
    let mut out = vec![];
    let mut i = 0;
    while i < cs.len() {
        let c = cs[i];
        let start = i;
        if c == '{' && cs[i..].starts_with(&['{', '{', '{']) {
            // command
            let mut j = i + 3;
            while j < cs.len() && !cs[j..].starts_with(&['}', '}', '}']) {
                j += 1;
            }
            i = (j + 3).min(cs.len());
        } else if c == '"' {
            let mut j = i + 1;
            while j < cs.len() && cs[j] != '"' {
                if cs[j] == '\\' {
                    j += 1;
                }
                j += 1;
            }
            i = (j + 1).min(cs.len());
        } else if c == '<' {
            let mut j = i + 1;
            while j < cs.len() && cs[j] != '>' {
                j += 1;
            }
            i = (j + 1).min(cs.len());
        } else if c == '.' && cs[i..].starts_with(&['.', '.', '.']) {
            i += 3;
        } else if c.is_whitespace() {
            while i < cs.len() && cs[i].is_whitespace() {
                i += 1;
            }
        } else if "()[]|;=".contains(c) {
            i += 1;
        } else if c == '#' && (start == 0 || cs[start - 1].is_whitespace()) {
            while i < cs.len() && cs[i] != '\n' {
                i += 1;
            }
        } else {
            while i < cs.len() && !cs[i].is_whitespace() && !"()[]|;<\"{".contains(cs[i]) {
                if cs[i] == '\\' {
                    i += 1;
                }
                i += 1;
            }
            i = i.min(cs.len());
            if i == start {
                i += 1;
            }
        }
        out.push(cs[start..i].iter().collect());
    }
    out
}

const SOUP: &[&str] = &[
    "cmd", " ", "\n", "(", ")", "[", "]", "|", "||", ";", "...", "<A>", "<B>", "<A@bash>", "<A@zsh>", "<B@nosh>", "=", "::=", "{{{ echo x }}}", "{{{", "}}}",
    "\"d\"", "\"", "\\", "\\(", "a", "--opt=", "foo", "#c\n", "<_>", "<PATH>", "<", ">", "@", "\u{c}", "\t", "caf\u{e9}", "\u{4e16}", "..", ".", "\r\n", "<A> = <B>;",
    "<B> = <A>;", "<A> = x <A>;", "x<A>y", "a b", "(a\n|b)", "\"multi\nline\"",
];

fn mutate(s: &mut Src, text: &str) -> String {
    let mut toks = tokens(text);
    let n = 1 + s.weighted(&[6, 3, 2, 1]);
    for _ in 0..n {
        if toks.is_empty() {
            toks.push(s.pick(SOUP).to_string());
            continue;
        }
        let i = s.below(toks.len());
        match s.below(10) {
            0 => {
                toks.remove(i);
            }
            1 => {
                let t = toks[i].clone();
                toks.insert(i, t);
            }
            2 => {
                if i + 1 < toks.len() {
                    toks.swap(i, i + 1);
                }
            }
            3 => toks.insert(i, s.pick(SOUP).to_string()),
            4 => toks[i] = s.pick(SOUP).to_string(),
            5 => toks.insert(i, "\n".to_string()),
            6 => {
                // truncate
                toks.truncate(i);
            }
            7 => {
                // cut a token in the middle
                let t: Vec<char> = toks[i].chars().collect();
                if t.len() > 1 {
                    let k = 1 + s.below(t.len() - 1);
                    toks[i] = t[..k].iter().collect();
                }
            }
            8 => toks.insert(i, "\\".to_string()),
            _ => {
                // move a token far away
                let t = toks.remove(i);
                let j = s.below(toks.len() + 1);
                toks.insert(j, t);
            }
        }
    }
    toks.concat()
}

fn trailer_ok(shell: &str, script: &str) -> bool {
    let t = script.trim_end();
    match shell {
        "bash" => t.lines().last().map(|l| l.starts_with("complete -o nospace -F _")).unwrap_or(false),
        "fish" => t.lines().last().map(|l| l.starts_with("complete --command ") && l.contains("--arguments")).unwrap_or(false),
        "zsh" => t.ends_with("fi") && t.contains("compdef _"),
        "pwsh" => t.ends_with('}') && t.contains("Register-ArgumentCompleter -Native -CommandName"),
        _ => false,
    }
}

pub struct Verdict {
    pub status: i32,
    pub parsed: bool,
    pub first_line: String,
}

/// run the binary on `input` and apply C06's validity predicate
pub fn judge(input: &[u8], shell: &str, dest_mode: usize) -> Result<Verdict, Result<Failure, String>> {
    let sc = Scratch::new();
    let inp = sc.path("in.usage");
    if let Err(e) = std::fs::write(&inp, input) {
        return Err(Err(format!("scratch write failed: {e}")));
    }
    let out_path = sc.path("out.script");
    const SENTINEL: &str = "SENTINEL: previous content\n";
    let dest_arg = match dest_mode {
        0 => "-".to_string(),
        1 => out_path.to_string_lossy().to_string(),
        _ => {
            let _ = std::fs::write(&out_path, SENTINEL);
            out_path.to_string_lossy().to_string()
        }
    };
    let args = vec![format!("--{shell}"), dest_arg, inp.to_string_lossy().to_string()];
    let mut out = match complgen(&args, None, &[], None) {
        Ok(o) => o,
        Err(e) => return Err(Err(format!("cannot run binary: {e}"))),
    };
    let lossy = String::from_utf8_lossy(input).to_string();
    let fail = |msg: String, out: &ProcOut| {
        Failure::new(
            msg,
            json!({"input": lossy, "input_hex": hex(input), "shell": shell, "dest_mode": dest_mode, "status": out.status, "signal": out.signal,
                   "stderr": out.stderr_s().chars().take(1500).collect::<String>()}),
        )
    };
    if out.timed_out {
        // hang policy: reproduce three times before calling it a violation
        let mut again = 0;
        for _ in 0..2 {
            match complgen(&args, None, &[], None) {
                Ok(o) if o.timed_out => again += 1,
                Ok(o) => out = o,
                Err(_) => {}
            }
        }
        if again == 2 {
            return Err(Ok(fail("complgen did not terminate within 10 s (three times)".into(), &out)));
        }
        return Err(Err("single timeout, not reproduced".into()));
    }
    let stderr = out.stderr_s();
    if out.signal.is_some() {
        return Err(Ok(fail(format!("complgen was killed by signal {:?}", out.signal), &out)));
    }
    let status = out.status.unwrap_or(-1);
    if stderr.contains("panicked at") || stderr.contains("overflowed its stack") || stderr.contains("internal error: entered unreachable code") {
        return Err(Ok(fail(format!("complgen panicked (exit status {status})"), &out)));
    }
    if status != 0 && status != 1 {
        return Err(Ok(fail(format!("complgen exited with status {status}"), &out)));
    }
    let dest_content: Option<String> = if dest_mode == 0 { Some(out.stdout_s()) } else { std::fs::read(&out_path).ok().map(|b| String::from_utf8_lossy(&b).to_string()) };
    if status == 0 {
        let script = dest_content.unwrap_or_default();
        if script.is_empty() || (dest_mode == 2 && script == SENTINEL) {
            return Err(Ok(fail("exit status 0 but no script was written".into(), &out)));
        }
        if !trailer_ok(shell, &script) {
            return Err(Ok(fail("exit status 0 but the script is incomplete (registration statement missing at the end)".into(), &out)));
        }
        if dest_mode != 0 && !out.stdout.is_empty() {
            return Err(Ok(fail("script destination is a file but something was written to stdout".into(), &out)));
        }
        for l in stderr.lines() {
            if l.contains("error:") && !l.contains("warning") {
                return Err(Ok(fail("exit status 0 but stderr carries an error".into(), &out)));
            }
        }
    } else {
        if stderr.trim().is_empty() {
            return Err(Ok(fail("exit status 1 without a diagnostic on stderr".into(), &out)));
        }
        if !out.stdout.is_empty() {
            return Err(Ok(fail("exit status 1 but something was written to stdout".into(), &out)));
        }
        match dest_mode {
            1 => {
                if dest_content.is_some() {
                    return Err(Ok(fail("exit status 1 but the destination file was created".into(), &out)));
                }
            }
            2 => {
                if dest_content.as_deref() != Some(SENTINEL) {
                    return Err(Ok(fail("exit status 1 but the existing destination file was modified".into(), &out)));
                }
            }
            _ => {}
        }
    }
    let first_line = stderr.lines().next().unwrap_or("").to_string();
    let parsed = status == 0 || !first_line.to_lowercase().contains("parse error");
    Ok(Verdict { status, parsed, first_line })
}

fn class_of(first_line: &str, status: i32) -> String {
    if status == 0 {
        return "exit0".into();
    }
    let l = first_line.to_lowercase();
    for (k, name) in [
        ("parse error", "parse_error"),
        ("cycl", "cycle"),
        ("duplicate", "duplicate"),
        ("varying", "varying_names"),
        ("call variant", "no_call_variant"),
        ("invalid command", "invalid_name"),
        ("unknown shell", "unknown_shell"),
        ("speciali", "non_command_spec"),
        ("subword", "subword_spaces"),
        ("ambiguous", "unbounded"),
        ("conflicting", "conflicting_descr"),
        ("utf-8", "invalid_utf8"),
    ] {
        if l.contains(k) {
            return format!("exit1:{name}");
        }
    }
    "exit1:other".into()
}

/// one nesting level around `inner`; `i` makes the literals of the level distinct
const TOWER_SHAPES: usize = 7;
fn tower_level(shape: usize, i: usize, inner: &str) -> String {
    match shape % TOWER_SHAPES {
        0 => format!("(a{i} {inner})..."),
        1 => format!("[a{i} {inner}]..."),
        2 => format!("[a{i} {inner}...]"),
        3 => format!("--a{i}=({inner})..."),
        4 => format!("(a{i} {inner} || b{i})..."),
        5 => format!("(a{i} | b{i} {inner})... \"d{i}\""),
        _ => format!("((a{i} {inner})...)..."),
    }
}

/// a small grammar whose brackets nest `depth` deep (repetition inside repetition inside ...): the work of
/// every pass must stay polynomial in the depth ("terminates promptly"); `via_defs` writes one definition per level
pub fn tower(shapes: &[usize], depth: usize, via_defs: bool) -> String {
    if via_defs {
        let mut t = String::from("cmd <L0>;\n");
        for i in 0..depth {
            let inner = if i + 1 < depth { format!("<L{}>", i + 1) } else { "x".to_string() };
            t.push_str(&format!("<L{i}> ::= {};\n", tower_level(shapes[i % shapes.len()], i, &inner)));
        }
        t
    } else {
        let mut inner = "x".to_string();
        for i in (0..depth).rev() {
            inner = tower_level(shapes[i % shapes.len()], i, &inner);
        }
        format!("cmd {inner};\n")
    }
}

/// small inputs of extreme shape (all <= 4 KiB): the work of every pass must stay polynomial in the depth,
/// width or length
fn stress_items() -> Vec<(String, String)> {
    let mut v: Vec<(String, String)> = vec![];
    for shape in 0..TOWER_SHAPES {
        for depth in [24usize, 40, 64] {
            v.push((format!("tower shape {shape} depth {depth}"), tower(&[shape], depth, false)));
        }
        v.push((format!("tower shape {shape} depth 40 via definitions"), tower(&[shape], 40, true)));
    }
    let all: Vec<usize> = (0..TOWER_SHAPES).collect();
    let rev: Vec<usize> = (0..TOWER_SHAPES).rev().collect();
    v.push(("tower mixed depth 48".into(), tower(&all, 48, false)));
    v.push(("tower mixed depth 48 via definitions".into(), tower(&rev, 48, true)));
    // stacked "diamond" definitions: the number of paths through the dependency graph is 2^layers
    let diamond = |layers: usize, used: bool| {
        let mut t = if used { "cmd <L0>;\n".to_string() } else { "cmd x;\n".to_string() };
        for i in 0..layers {
            let nxt = if i + 1 < layers { format!("<L{}>", i + 1) } else { "z".to_string() };
            t.push_str(&format!("<L{i}> ::= <P{i}> | <Q{i}>;\n<P{i}> ::= p{i} {nxt};\n<Q{i}> ::= q{i} {nxt};\n"));
        }
        t
    };
    v.push(("diamond definitions, 40 layers, not used by the command".into(), diamond(40, false)));
    v.push(("diamond definitions, 9 layers, used".into(), diamond(9, true)));
    let mut chain = "cmd <C0>;\n".to_string();
    for i in 0..150 {
        let nxt = if i < 149 { format!("<C{}>", i + 1) } else { "end".to_string() };
        chain.push_str(&format!("<C{i}> ::= c{i} {nxt};\n"));
    }
    v.push(("chain of 150 definitions".into(), chain));
    v.push(("alternation of 400 literals".into(), format!("cmd {};\n", (0..400).map(|i| format!("w{i}")).collect::<Vec<_>>().join(" | "))));
    v.push(("|| chain of 300 literals".into(), format!("cmd {};\n", (0..300).map(|i| format!("f{i}")).collect::<Vec<_>>().join(" || "))));
    v.push(("250 call variants".into(), (0..250).map(|i| format!("cmd v{i} t{i};\n")).collect::<String>()));
    v.push(("word of 200 parts".into(), format!("cmd {};\n", (0..200).map(|i| if i % 2 == 0 { format!("p{i}=(a|b)") } else { format!(",s{i}") }).collect::<String>())));
    v.push(("sequence of 120 optional items".into(), format!("cmd {};\n", (0..120).map(|i| format!("[o{i}]")).collect::<Vec<_>>().join(" "))));
    v
}

fn case_stress(it: &(String, String)) -> Outcome {
    let (label, text) = it;
    if text.len() > 4096 {
        return Outcome::Broken(format!("stress input {label:?} is larger than 4 KiB"));
    }
    let k = label.len() + text.len();
    let shell = crate::obs::SHELLS[k % 4];
    match judge(text.as_bytes(), shell, k % 3) {
        Err(Ok(mut f)) => {
            f.msg = format!("{label}: {}", f.msg);
            Outcome::Fail(f)
        }
        Err(Err(why)) => Outcome::Broken(why),
        Ok(v) => {
            let mut c = Case::new(hex(text.as_bytes()));
            c.nontrivial = v.parsed;
            c.class("family:stress-shape");
            c.class(class_of(&v.first_line, v.status));
            if label.starts_with("tower shape 0 depth 24") || label.starts_with("diamond definitions, 40") {
                c.sample = Some(json!({"what": label, "input": text, "shell": shell, "status": v.status}));
            }
            Outcome::Pass(c)
        }
    }
}

fn drop_description(g: &crate::ast::G, which: &str) -> crate::ast::G {
    use crate::ast::{Stmt, E, G};
    fn go(e: &E, which: &str) -> E {
        match e {
            E::Lit { text, descr } if descr.as_deref() == Some(which) => E::Lit { text: text.clone(), descr: None },
            E::Descr(inner, d) if d == which => go(inner, which),
            _ => e.map_children(&mut |c| go(c, which)),
        }
    }
    G {
        stmts: g
            .stmts
            .iter()
            .map(|st| match st {
                Stmt::Call { name, e } => Stmt::Call { name: name.clone(), e: go(e, which) },
                Stmt::Def { name, shell, e } => Stmt::Def { name: name.clone(), shell: shell.clone(), e: go(e, which) },
            })
            .collect(),
    }
}

fn gen_input(bytes: &[u8]) -> (Vec<u8>, &'static str, usize, usize) {
    let cut = bytes.len() / 2;
    let (a, b) = bytes.split_at(cut);
    let mut s = Src::new(b);
    let family = s.weighted(&[4, 6, 2, 2, 1, 1]);
    let shell_i = s.below(4);
    let dest = s.below(3);
    let p = Profile::general();
    match family {
        0 => {
            // planted mistake (or, 1 in 4, the clean grammar itself), random multi-line layout
            let mut sa = Src::new(a);
            let (g, _) = crate::gen_clean::gen_clean(&mut sa, &p);
            let g2 = if s.chance(3, 4) { plant(&mut s, &g).g } else { g };
            // described next to undescribed: one of two conflicting descriptions is dropped (whatever the
            // compiler makes of it, the exit status and the script must agree)
            let g2 = if s.chance(1, 3) { drop_description(&g2, "second descr") } else { g2 };
            let rest: Vec<u8> = (0..64).map(|_| s.byte()).collect();
            let mut st = Style::random(&rest);
            st.blank_weight = 5;
            (print_grammar(&g2, &mut st, None).text.into_bytes(), "planted", shell_i, dest)
        }
        1 => {
            let cc = clean_case(a, &p, true);
            (mutate(&mut s, &cc.text).into_bytes(), "token-mutation", shell_i, dest)
        }
        2 => {
            let n = s.below(40);
            let mut t = String::new();
            for _ in 0..n {
                t.push_str(*s.pick(SOUP));
            }
            (t.into_bytes(), "token-soup", shell_i, dest)
        }
        3 => {
            // the bundled-example style: valid multi-line grammar with mistakes planted twice
            let mut sa = Src::new(a);
            let (g, _) = crate::gen_clean::gen_clean(&mut sa, &p);
            let g1 = plant(&mut s, &g).g;
            let g2 = plant(&mut s, &g1).g;
            let rest: Vec<u8> = (0..64).map(|_| s.byte()).collect();
            let mut st = Style::random(&rest);
            (print_grammar(&g2, &mut st, None).text.into_bytes(), "planted-twice", shell_i, dest)
        }
        4 => (a.to_vec(), "raw-bytes", shell_i, dest),
        _ => {
            let depth = 4 + s.below(44);
            let n = 1 + s.below(4);
            let shapes: Vec<usize> = (0..n).map(|_| s.below(TOWER_SHAPES)).collect();
            let via = s.chance(1, 3);
            (tower(&shapes, depth, via).into_bytes(), "nesting-tower", shell_i, dest)
        }
    }
}

fn case(bytes: &[u8]) -> Outcome {
    let (input, family, shell_i, dest) = gen_input(bytes);
    if input.len() > 4096 {
        return Outcome::Skip("input larger than 4 KiB".into());
    }
    let shell = crate::obs::SHELLS[shell_i];
    match judge(&input, shell, dest) {
        Err(Ok(f)) => Outcome::Fail(f),
        Err(Err(why)) => Outcome::Broken(why),
        Ok(v) => {
            let mut c = Case::new(hex(&input));
            c.nontrivial = v.parsed || input.iter().filter(|b| **b == b';').count() >= 1;
            c.class(format!("family:{family}"));
            c.class(class_of(&v.first_line, v.status));
            c.class(format!("dest:{}", ["stdout", "fresh-file", "existing-file"][dest]));
            if input.iter().filter(|b| **b == b'\n').count() >= 2 {
                c.class("multi_line");
            }
            c.sample = Some(json!({"input": String::from_utf8_lossy(&input), "shell": shell, "status": v.status, "first_stderr_line": v.first_line}));
            Outcome::Pass(c)
        }
    }
}

fn case_regress(doc: &serde_json::Value) -> Outcome {
    let input: Vec<u8> = match doc.get("input_hex").and_then(|x| x.as_str()) {
        Some(h) => unhex(h),
        None => doc["input"].as_str().unwrap_or("").as_bytes().to_vec(),
    };
    let mut c = Case::new(hex(&input));
    c.evals = 0;
    for shell in crate::obs::SHELLS {
        for dest in 0..3 {
            match judge(&input, shell, dest) {
                Err(Ok(f)) => return Outcome::Fail(f),
                Err(Err(w)) => return Outcome::Broken(w),
                Ok(v) => {
                    c.evals += 1;
                    c.nontrivial |= v.parsed;
                }
            }
        }
    }
    c.sample = Some(json!({"input": String::from_utf8_lossy(&input)}));
    Outcome::Pass(c)
}

/// definitions that depend on each other cyclically (pre-screen for the in-process part: complgen's
/// expansion passes recurse without bound on some cyclic grammars, which would take the harness down)
fn has_cycle(g: &crate::ast::G) -> bool {
    use crate::ast::E;
    use std::collections::{BTreeMap, BTreeSet};
    let mut deps: BTreeMap<String, BTreeSet<String>> = BTreeMap::new();
    for (name, sh, e) in g.defs() {
        if sh.is_some() {
            continue;
        }
        let d = deps.entry(name.clone()).or_default();
        e.walk(&mut |x| {
            if let E::Nt(n) = x {
                d.insert(n.clone());
            }
        });
    }
    // iterative removal of vertices without outgoing edges into the remaining set
    let mut alive: BTreeSet<String> = deps.keys().cloned().collect();
    loop {
        let rm: Vec<String> = alive.iter().filter(|n| !deps[*n].iter().any(|d| alive.contains(d))).cloned().collect();
        if rm.is_empty() {
            break;
        }
        for r in rm {
            alive.remove(&r);
        }
    }
    !alive.is_empty()
}

fn big_stack<T: Send + 'static>(f: impl FnOnce() -> T + Send + 'static) -> std::thread::Result<T> {
    std::thread::Builder::new().stack_size(512 << 20).spawn(f).expect("thread").join()
}

/// in-process part: the library pipeline and all four emitters must never panic
fn case_lib(bytes: &[u8]) -> Outcome {
    let (input, family, _, _) = gen_input(bytes);
    if input.len() > 4096 {
        return Outcome::Skip("input larger than 4 KiB".into());
    }
    let Ok(text) = String::from_utf8(input.clone()) else { return Outcome::Skip("not UTF-8 (binary part only)".into()) };
    // leave a trace for the supervisor in case the process dies
    let tid = format!("{:?}", std::thread::current().id()).replace(|c: char| !c.is_ascii_digit(), "");
    let trace = scratch_root().join(format!("inproc-{tid}.usage"));
    let _ = std::fs::write(&trace, &text);
    let t2 = text.clone();
    let parsed = big_stack(move || std::panic::catch_unwind(|| complgen::parse::Grammar::parse(&t2).map(|g| crate::obs::grammar_to_ast(&g))));
    let ast = match parsed {
        Ok(Ok(Ok(g))) => Some(g),
        Ok(Ok(Err(_))) => None,
        _ => return Outcome::Fail(Failure::new("the parser panicked (library, in-process)", json!({"input": text, "input_hex": hex(&input)}))),
    };
    let mut c = Case::new(hex(&input));
    c.class(format!("family:{family}"));
    let Some(ast) = ast else {
        c.class("lib:parse_error");
        c.nontrivial = input.contains(&b';');
        return Outcome::Pass(c);
    };
    if has_cycle(&ast) {
        c.class("lib:cyclic(skipped in-process, binary part covers it)");
        return Outcome::Pass(c);
    }
    c.nontrivial = true;
    c.evals = 0;
    for shell in crate::obs::SHELLS {
        let t3 = text.clone();
        let r = big_stack(move || {
            std::panic::catch_unwind(|| match crate::obs::compile(&t3, shell) {
                Ok(cc) => Some(crate::obs::emit(&cc, shell)),
                Err(_) => None,
            })
        });
        c.evals += 1;
        match r {
            Ok(Ok(None)) => c.class("lib:rejected"),
            Ok(Ok(Some(Ok(script)))) => {
                if !trailer_ok(shell, &script) {
                    return Outcome::Fail(Failure::new(
                        format!("emitted {shell} script is incomplete (library, in-process)"),
                        json!({"input": text, "input_hex": hex(&input), "shell": shell}),
                    ));
                }
                c.class("lib:script");
            }
            Ok(Ok(Some(Err(e)))) => {
                return Outcome::Fail(Failure::new(
                    format!("emitter for {shell} failed on an accepted grammar: {e}"),
                    json!({"input": text, "input_hex": hex(&input), "shell": shell}),
                ))
            }
            _ => {
                return Outcome::Fail(Failure::new(
                    format!("the library pipeline panicked for {shell} (in-process)"),
                    json!({"input": text, "input_hex": hex(&input), "shell": shell}),
                ))
            }
        }
    }
    c.sample = Some(json!({"input": text, "via": "library"}));
    Outcome::Pass(c)
}

pub fn run(tier: Tier, seed: u64) -> i32 {
    let mut run = Run::new(
        "C06",
        tier,
        seed,
        "exploration",
        "inputs <=4 KiB: clean grammars with 0-2 planted mistakes (cycles of every reachability pattern, duplicates, unknown shells, non-command specialisations, spaces/placeholders inside words, conflicting descriptions) printed with random multi-line layout; token-level mutations of printed clean grammars (delete/duplicate/swap/insert/replace/truncate/cut/backslash/move); token soups; raw bytes incl. invalid UTF-8; nesting towers (7 bracket shapes incl. repetition in repetition, optional repetition, repetition inside a word, || under repetition, nested 4..64 deep, inline or one definition per level; a fixed set of 30 towers plus 8 more extreme shapes — 40 layers of 'diamond' definitions nothing uses (2^40 paths through the dependency graph), a chain of 150 definitions, 400 alternatives, 300 || branches, 250 call variants, a word of 200 parts, 120 optional items — is run first, part 'stress-shapes'). Part 'binary': the built binary x one of 4 shells x destination {stdout, fresh file, existing file}; oracle: ends within 10 s with status 0 (complete script at the destination, no error on stderr) or 1 (diagnostic on stderr, nothing on stdout, destination untouched); never a signal, panic or other status. Part 'library': the same inputs through parse->validate->regex->DFA->minimize->4 emitters in-process; oracle: no panic, accepted grammars give complete scripts (cyclic definitions are pre-screened out of this part). Non-trivial: input got past the parser or contains a statement terminator; distinct by input bytes.",
    );
    run.assumptions.push("a timeout is reported as a violation only when reproduced three times; exponential nonterminal fan-out is excluded by construction (<=5 definitions, <=4 KiB)".into());
    run.assumptions.push("process creation on this box is a serial resource (~70 complgen runs/s), so the binary part is small and the in-process part carries the volume".into());
    run.shards = 3;
    run.shrink_iters = 150;
    run.enumerate("regress", load_regress("C06"), false, case_regress);
    if !run.failed() {
        run.enumerate("stress-shapes", stress_items(), true, case_stress);
    }
    if !run.failed() {
        run.random("binary", tier.pick(1_500, 20_000), 700, case);
    }
    run.shards = nshards();
    run.shrink_iters = 2000;
    if !run.failed() {
        run.random("library", tier.pick(30_000, 500_000), 700, case_lib);
    }
    if tier == Tier::Thorough && !run.failed() {
        run.fuzz("libfuzzer", 60_000, 8, 600, fuzz_case);
    }
    let code = run.finish();
    cleanup_scratch();
    code
}

/// called by the supervisor when the child process died: judge the traced in-process inputs with the binary
pub fn after_crash(root: &std::path::Path) -> i32 {
    let mut code = 2;
    if let Ok(rd) = std::fs::read_dir(root) {
        for e in rd.filter_map(|e| e.ok()) {
            let p = e.path();
            if !p.file_name().map(|n| n.to_string_lossy().starts_with("inproc-")).unwrap_or(false) {
                continue;
            }
            let Ok(input) = std::fs::read(&p) else { continue };
            for shell in crate::obs::SHELLS {
                if let Err(Ok(f)) = judge(&input, shell, 0) {
                    let dir = verif_dir();
                    let _ = std::fs::create_dir_all(format!("{dir}/replays"));
                    let path = format!("{dir}/replays/C06-crash-{:016x}.json", crate::src::hash_str(&hex(&input)));
                    let _ = std::fs::write(&path, serde_json::to_string_pretty(&json!({"property": "C06", "part": "library(crash)", "message": f.msg, "detail": f.detail})).unwrap());
                    println!("VIOLATION property=C06 replay={path}");
                    code = 1;
                    break;
                }
            }
        }
    }
    code
}

pub fn replay(doc: &serde_json::Value) -> i32 {
    let d = if doc.get("detail").is_some() { &doc["detail"] } else { doc };
    let r = case_regress(d);
    cleanup_scratch();
    match r {
        Outcome::Fail(f) => {
            println!("VIOLATION property=C06 replay=(given) {}", f.msg);
            1
        }
        Outcome::Broken(_) => 2,
        _ => 0,
    }
}

/// entry point of the libFuzzer target: the in-process (library) part
pub fn fuzz_case(data: &[u8]) -> Outcome {
    case_lib(data)
}
