pub mod c01;
pub mod c02;
pub mod c03;
pub mod c04;
pub mod c05;
pub mod c06;
pub mod c07;
pub mod c08;
pub mod c09;
pub mod c10;
pub mod c11;
pub mod c12;
pub mod c13;
pub mod c14;
pub mod c15;
pub mod c16;
pub mod c17;
pub mod common;

use crate::engine::Tier;

/// returns the process exit code
pub fn run(prop: &str, tier: Tier, seed: u64) -> i32 {
    match prop {
        "C01" => c01::run(tier, seed),
        "C02" => c02::run(tier, seed),
        "C03" => c03::run(tier, seed),
        "C04" => c04::run(tier, seed),
        "C05" => c05::run(tier, seed),
        "C06" => c06::run(tier, seed),
        "C07" => c07::run(tier, seed),
        "C08" => c08::run(tier, seed),
        "C09" => c09::run(tier, seed),
        "C10" => c10::run(tier, seed),
        "C11" => c11::run(tier, seed),
        "C12" => c12::run(tier, seed),
        "C13" => c13::run(tier, seed),
        "C14" => c14::run(tier, seed),
        "C15" => c15::run(tier, seed),
        "C16" => c16::run(tier, seed),
        "C17" => c17::run(tier, seed),
        _ => {
            eprintln!("unknown property {prop}");
            2
        }
    }
}

pub fn replay(prop: &str, path: &str) -> i32 {
    let Ok(txt) = std::fs::read_to_string(path) else {
        eprintln!("cannot read {path}");
        return 2;
    };
    let Ok(doc) = serde_json::from_str::<serde_json::Value>(&txt) else {
        eprintln!("cannot parse {path}");
        return 2;
    };
    match prop {
        "C01" => c01::replay(&doc),
        "C02" => c02::replay(&doc),
        "C03" => c03::replay(&doc),
        "C04" => c04::replay(&doc),
        "C05" => c05::replay(&doc),
        "C06" => c06::replay(&doc),
        "C07" => c07::replay(&doc),
        "C08" => c08::replay(&doc),
        "C09" => c09::replay(&doc),
        "C10" => c10::replay(&doc),
        "C11" => c11::replay(&doc),
        "C12" => c12::replay(&doc),
        "C13" => c13::replay(&doc),
        "C14" => c14::replay(&doc),
        "C15" => c15::replay(&doc),
        "C16" => c16::replay(&doc),
        "C17" => c17::replay(&doc),
        _ => 2,
    }
}

/// the check process died: try to turn the inputs it was working on into a verdict
pub fn after_crash(prop: &str, root: &std::path::Path) -> i32 {
    match prop {
        "C06" => c06::after_crash(root),
        _ => 2,
    }
}
