//! C13 — diagnostics point at the construct they complain about.

use crate::ast::*;
use crate::bin::*;
use crate::diag;
use crate::engine::*;
use crate::gen_clean::{gen_clean, Profile};
use crate::mistakes::*;
use crate::obs;
use crate::print::*;
use crate::src::Src;
use complgen::parse::HumanSpan;
use serde_json::json;
use std::collections::{BTreeMap, BTreeSet};

type Pos = (usize, usize);

pub struct MarkIndex {
    /// (line, column) -> marks starting there; both byte and character columns are indexed
    at: BTreeMap<Pos, Vec<(Mark, usize)>>,
}

impl MarkIndex {
    pub fn new(p: &Printed) -> MarkIndex {
        let mut at: BTreeMap<Pos, Vec<(Mark, usize)>> = BTreeMap::new();
        for m in &p.marks {
            let (l, cb, cc) = p.linecol(m.off);
            at.entry((l, cb)).or_default().push((m.clone(), m.off));
            if cc != cb {
                at.entry((l, cc)).or_default().push((m.clone(), m.off));
            }
        }
        MarkIndex { at }
    }
    pub fn find(&self, pos: Pos, pred: &dyn Fn(&MarkKind) -> bool) -> Option<&(Mark, usize)> {
        self.at.get(&pos).and_then(|v| v.iter().find(|(m, _)| pred(&m.kind)))
    }
}

/// a syntax error planted inside statement k (never at its first token)
pub struct Broken {
    pub text: String,
    pub stmt_off: usize,
    pub what: &'static str,
}

pub fn break_statement(s: &mut Src, p: &Printed) -> Option<Broken> {
    let starts: Vec<(usize, usize)> = p.marks.iter().filter_map(|m| if let MarkKind::StmtStart(i) = m.kind { Some((i, m.off)) } else { None }).collect();
    if starts.is_empty() {
        return None;
    }
    let (k, off) = starts[s.below(starts.len())];
    // insertion points: token starts of that statement after its first token
    let toks: Vec<usize> = p
        .marks
        .iter()
        .filter(|m| m.stmt == k && m.off > off && matches!(m.kind, MarkKind::Lit(_) | MarkKind::NtRef(_) | MarkKind::Cmd(_)))
        .map(|m| m.off)
        .collect();
    if toks.is_empty() {
        return None;
    }
    let at = toks[s.below(toks.len())];
    let what = *s.pick(&[") ", "] ", "\\q", "> "]);
    let mut text = p.text.clone();
    text.insert_str(at, what);
    Some(Broken { text, stmt_off: off, what })
}

fn lib_result(text: &str, shell: &str) -> Option<Result<(), complgen::Error>> {
    // (cycle cases never come here: an undetected cycle would recurse without bound)
    std::panic::catch_unwind(|| {
        let g = complgen::parse::Grammar::parse(text)?;
        let v = complgen::check::ValidGrammar::from_grammar(g, obs::shell_of(shell))?;
        let mut pool = complgen::regex::RegexInternPool::default();
        let regex = complgen::regex::Regex::from_valid_grammar(&v, &mut pool)?;
        let raw = complgen::dfa::DFA::from_regex_raw(regex, &pool)?;
        raw.minimize().check_ambiguity_best_effort()?;
        Ok(())
    })
    .ok()
}

/// (label as printed by the binary, span) pairs of a located error
fn spans_of(e: &complgen::Error) -> Vec<(&'static str, HumanSpan)> {
    use complgen::Error::*;
    match e {
        ParseError(s) => vec![("Parse error", *s)],
        InvalidCommandName(s) => vec![("Invalid command name", *s)],
        VaryingCommandNames(v) => v.iter().map(|s| ("Varying command names:", *s)).collect(),
        NonterminalDefinitionsCycle(v) => v.iter().map(|s| ("Nonterminal definitions cycle", *s)).collect(),
        DuplicateNonterminalDefinition(a, b) => vec![("Previous definition", *a), ("Duplicate nonterminal definition", *b)],
        UnknownShell(s) => vec![("Unknown shell", *s)],
        NonCommandSpecialization(s) => vec![("Can only specialize external commands", *s)],
        UnboundedMatchable(a, b) => vec![("Ambiguous grammar", *a), ("", *b)],
        SubwordSpaces(a, b, t) => {
            let mut v = vec![("Adjacent literals in expression used in a subword context", *a), ("", *b)];
            v.extend(t.iter().map(|s| ("Referenced in a subword context at", *s)));
            v
        }
        _ => vec![],
    }
}

pub struct Ctx<'a> {
    pub printed: &'a Printed,
    pub idx: MarkIndex,
    pub planted: Option<&'a Planted>,
    pub broken_stmt_off: Option<usize>,
}

/// is `pos` a legitimate location for a diagnostic with this label?  Err(why) otherwise
fn allowed(cx: &Ctx, label: &str, pos: Pos, shell: &str) -> Result<(), String> {
    let names: BTreeSet<String> = cx.planted.map(|p| p.locus.iter().map(|(_, n)| n.clone()).collect()).unwrap_or_default();
    let class = cx.planted.map(|p| p.class.clone());
    let ok = match label {
        "Parse error" => match cx.broken_stmt_off {
            Some(off) => {
                let (l, cb, cc) = cx.printed.linecol(off);
                pos == (l, cb) || pos == (l, cc)
            }
            None => false,
        },
        "Invalid command name" | "Varying command names:" => cx.idx.find(pos, &|k| matches!(k, MarkKind::CallName(_))).is_some(),
        // the report is a trace: the definition the search started from, then the references it followed;
        // each element must be a definition's left-hand side or a reference (the trace as a whole must
        // touch the planted cycle: checked by the caller)
        "Nonterminal definitions cycle" => cx.idx.find(pos, &|k| matches!(k, MarkKind::NtRef(_) | MarkKind::DefLhs { shell: None, .. })).is_some(),
        "Previous definition" | "Duplicate nonterminal definition" => cx
            .idx
            .find(pos, &|k| match k {
                MarkKind::DefLhs { name, shell: sh } => {
                    names.contains(name)
                        && match class {
                            Some(Class::DuplicateSpec) => sh.as_deref() == Some(shell),
                            _ => sh.is_none(),
                        }
                }
                _ => false,
            })
            .is_some(),
        "Unknown shell" => cx.idx.find(pos, &|k| matches!(k, MarkKind::DefShell(s) if names.contains(s))).is_some(),
        "Can only specialize external commands" => {
            // the right-hand side of the offending definition
            cx.idx.at.get(&pos).map(|v| v.iter().any(|(m, _)| m.kind == MarkKind::RhsStart && matches!(&cx.printed.marks.iter().find(|x| x.stmt == m.stmt && matches!(x.kind, MarkKind::DefLhs { .. })).map(|x| x.kind.clone()), Some(MarkKind::DefLhs { name, .. }) if names.contains(name)))).unwrap_or(false)
        }
        "Adjacent literals in expression used in a subword context" => cx.idx.find(pos, &|k| matches!(k, MarkKind::Lit(t) if t == "sp1")).is_some(),
        // the trace of references that lead from the call variant to the offending definition: only the
        // planted chain (SPC*) and the definitions the mistake was attached behind (Q*) are on that path
        "Referenced in a subword context at" => cx.idx.find(pos, &|k| matches!(k, MarkKind::NtRef(n) if n.starts_with("SPC") || (n.starts_with('Q') && n[1..].chars().all(|c| c.is_ascii_digit())))).is_some(),
        "Ambiguous grammar" => cx.idx.find(pos, &|k| matches!(k, MarkKind::NtRef(_))).is_some(),
        "" => match class {
            Some(Class::SubwordSpaces) => cx.idx.find(pos, &|k| matches!(k, MarkKind::Lit(t) if t == "sp2")).is_some(),
            _ => cx.idx.find(pos, &|k| matches!(k, MarkKind::Lit(_) | MarkKind::NtRef(_) | MarkKind::Cmd(_))).is_some(),
        },
        other => return Err(format!("unknown diagnostic label {other:?}")),
    };
    if ok {
        Ok(())
    } else {
        Err(format!("'{label}' is located at {}:{}, where no construct of that kind starts", pos.0, pos.1))
    }
}

fn cycle_trace_touches(cx: &Ctx, it: impl Iterator<Item = Pos>) -> bool {
    let names: BTreeSet<String> = cx.planted.map(|p| p.locus.iter().map(|(_, n)| n.clone()).collect()).unwrap_or_default();
    let mut any = false;
    for pos in it {
        if cx
            .idx
            .find(pos, &|k| match k {
                MarkKind::NtRef(n) => names.contains(n),
                MarkKind::DefLhs { name, shell: None } => names.contains(name),
                _ => false,
            })
            .is_some()
        {
            any = true;
        }
    }
    any
}

fn nontrivial_pos(text: &str, pos: Pos) -> bool {
    if pos.0 > 1 {
        return true;
    }
    let line = text.lines().next().unwrap_or("");
    line.as_bytes().iter().take(pos.1.saturating_sub(1)).any(|b| *b == b'\\')
}

fn judge_text(cx: &Ctx, text: &str, with_bin_shell: Option<&str>, c: &mut Case, expect_error_for: &dyn Fn(&str) -> bool, g: Option<&G>) -> Result<(), Outcome> {
    let detail = |shell: &str| json!({"text": text, "shell": shell, "g": g.map(|g| g.to_json()), "planted": cx.planted.map(|p| p.variant.clone()), "broken": cx.broken_stmt_off.is_some()});
    for shell in obs::SHELLS {
        if !expect_error_for(shell) {
            continue;
        }
        if cx.planted.map(|p| p.class == Class::Cycle).unwrap_or(false) && with_bin_shell != Some(shell) {
            // undetected cycles recurse without bound in-process: judged through the binary only
            continue;
        }
        let via_bin = with_bin_shell == Some(shell);
        if !(cx.planted.map(|p| p.class == Class::Cycle).unwrap_or(false)) {
            let Some(r) = lib_result(text, shell) else { return Err(Outcome::Skip("panic (C06's business)".into())) };
            let Err(e) = r else { return Err(Outcome::Skip("accepted although a mistake was planted (C08's business)".into())) };
            let spans = spans_of(&e);
            c.evals += 1;
            // order facts
            if let complgen::Error::DuplicateNonterminalDefinition(a, b) = &e {
                if (a.line, a.column_start) >= (b.line, b.column_start) {
                    return Err(Outcome::Fail(Failure::new(
                        format!("duplicate definition: the 'previous' one ({}:{}) does not precede the reported duplicate ({}:{})", a.line, a.column_start, b.line, b.column_start),
                        detail(shell),
                    )));
                }
            }
            if let complgen::Error::NonterminalDefinitionsCycle(v) = &e {
                if !cycle_trace_touches(cx, v.iter().map(|s| (s.line, s.column_start))) {
                    return Err(Outcome::Fail(Failure::new(format!("{shell}: no element of the reported cycle names a member of the cycle"), detail(shell))));
                }
            }
            for (label, sp) in &spans {
                let pos = (sp.line, sp.column_start);
                if let Err(why) = allowed(cx, label, pos, shell) {
                    return Err(Outcome::Fail(Failure::new(format!("{shell}: {why}"), detail(shell))));
                }
                if nontrivial_pos(text, pos) {
                    c.extra_keys.push(format!("{label}|{}|{}|{}", crate::src::hash_str(text), pos.0, pos.1));
                }
                c.class(format!("located:{}", if label.is_empty() { "(second)" } else { label }));
            }
        }
        if via_bin {
            let sc = Scratch::new();
            let inp = sc.path("d.usage");
            if std::fs::write(&inp, text).is_err() {
                return Err(Outcome::Broken("cannot write scratch".into()));
            }
            let path = inp.to_string_lossy().to_string();
            let out = match complgen(&[format!("--{shell}"), "-".into(), path.clone()], None, &[], None) {
                Ok(o) => o,
                Err(e) => return Err(Outcome::Broken(format!("cannot run binary: {e}"))),
            };
            if out.timed_out || out.status != Some(1) {
                return Err(Outcome::Skip("binary did not exit with 1 (C06/C08's business)".into()));
            }
            c.evals += 1;
            c.class("binary_run");
            let err = out.stderr_s();
            let diags = diag::parse_stderr(&err, &path);
            if diags.iter().any(|d| d.label == "Nonterminal definitions cycle") && !cycle_trace_touches(cx, diags.iter().filter(|d| d.label == "Nonterminal definitions cycle").map(|d| (d.line, d.col))) {
                return Err(Outcome::Fail(Failure::new(format!("complgen --{shell}: no element of the reported cycle names a member of the cycle"), detail(shell))));
            }
            for d in diags.iter().filter(|d| d.kind == "error") {
                let pos = (d.line, d.col);
                if let Err(why) = allowed(cx, &d.label, pos, shell) {
                    return Err(Outcome::Fail(Failure::new(format!("complgen --{shell}: {why}"), detail(shell))));
                }
                let src = text.lines().nth(d.line - 1).unwrap_or("");
                match &d.snippet {
                    Some((n, shown)) if *n == d.line && crate::diag::shows_line(shown, src) => {}
                    other => {
                        return Err(Outcome::Fail(Failure::new(
                            format!("complgen --{shell}: '{}' at {}:{} does not show source line {} ({:?}) but {:?}", d.label, d.line, d.col, d.line, src, other),
                            detail(shell),
                        )))
                    }
                }
                if let Some((start, _)) = d.underline {
                    // the underline starts under the reported column (counted in characters of the shown line)
                    let colc = src.char_indices().take_while(|(i, _)| *i < d.col - 1).count();
                    if start != d.col - 1 && start != colc {
                        return Err(Outcome::Fail(Failure::new(format!("complgen --{shell}: '{}' at {}:{} is underlined from column {}", d.label, d.line, d.col, start + 1), detail(shell))));
                    }
                }
            }
        }
    }
    Ok(())
}

fn case(bytes: &[u8], with_bin: bool) -> Outcome {
    let n = bytes.len();
    let (ga, rest) = bytes.split_at(n / 2);
    let (xb, lb) = rest.split_at(rest.len() / 2);
    let mut prof = Profile::general();
    prof.special_lits = true;
    let (base, _) = gen_clean(&mut Src::new(ga), &prof);
    let mut sx = Src::new(xb);
    let mut c = Case::new("");
    c.evals = 0;
    let bin_shell = if with_bin { Some(obs::SHELLS[sx.below(4)]) } else { None };
    let mut st = Style::random(lb);
    st.blank_weight = 4;
    if sx.chance(1, 3) {
        // syntax error planted in the k-th statement
        let printed = print_grammar(&base, &mut st, None);
        let Some(b) = break_statement(&mut sx, &printed) else { return Outcome::Skip("nothing to break".into()) };
        let cx = Ctx { printed: &printed, idx: MarkIndex::new(&printed), planted: None, broken_stmt_off: Some(b.stmt_off) };
        c.class(format!("parse-error:{}", b.what.trim()));
        if let Err(o) = judge_text(&cx, &b.text, bin_shell, &mut c, &|_| true, Some(&base)) {
            return o;
        }
        c.sample = Some(json!({"text": b.text, "planted": "syntax error", "statement_starts_at": printed.linecol(b.stmt_off).0}));
    } else {
        let mut planted = plant(&mut sx, &base);
        // classes without a location are not this property's subject
        let mut tries = 0;
        while matches!(planted.class, Class::NoCallVariant | Class::ConflictingDescriptions) && tries < 4 {
            planted = plant(&mut sx, &base);
            tries += 1;
        }
        if matches!(planted.class, Class::NoCallVariant | Class::ConflictingDescriptions) {
            return Outcome::Skip("unlocated class".into());
        }
        let printed = print_grammar(&planted.g, &mut st, None);
        let cx = Ctx { printed: &printed, idx: MarkIndex::new(&printed), planted: Some(&planted), broken_stmt_off: None };
        let only = planted.only_shell.clone();
        c.class(format!("planted:{}", planted.class.name()));
        if let Err(o) = judge_text(&cx, &printed.text, bin_shell, &mut c, &|sh| only.as_deref().map(|o| o == sh).unwrap_or(true), Some(&planted.g)) {
            return o;
        }
        c.sample = Some(json!({"text": printed.text, "planted": planted.variant}));
    }
    if c.evals == 0 {
        return Outcome::Skip("nothing judged".into());
    }
    Outcome::Pass(c)
}

fn case_regress(doc: &serde_json::Value) -> Outcome {
    // {"text": ..., "expect": [{"label": "...", "line": n, "col": m}, ...], "shell": "bash"}
    let Some(text) = doc["text"].as_str() else { return Outcome::Broken("bad regress file".into()) };
    let shell = doc["shell"].as_str().unwrap_or("bash");
    let sc = Scratch::new();
    let inp = sc.path("d.usage");
    let _ = std::fs::write(&inp, text);
    let path = inp.to_string_lossy().to_string();
    let out = match complgen(&[format!("--{shell}"), "-".into(), path.clone()], None, &[], None) {
        Ok(o) => o,
        Err(e) => return Outcome::Broken(format!("cannot run binary: {e}")),
    };
    let diags = diag::parse_stderr(&out.stderr_s(), &path);
    let mut c = Case::new(text);
    c.nontrivial = true;
    for ex in doc["expect"].as_array().cloned().unwrap_or_default() {
        let (label, line, col) = (ex["label"].as_str().unwrap_or(""), ex["line"].as_u64().unwrap_or(0) as usize, ex["col"].as_u64().unwrap_or(0) as usize);
        if !diags.iter().any(|d| d.label == label && d.line == line && d.col == col && d.snippet.as_ref().map(|(n, s)| *n == line && s == text.lines().nth(line - 1).unwrap_or("")).unwrap_or(false)) {
            return Outcome::Fail(Failure::new(
                format!("expected '{label}' at {line}:{col} with its source line; complgen --{shell} printed {:?}", diags.iter().map(|d| (d.label.clone(), d.line, d.col)).collect::<Vec<_>>()),
                json!({"text": text, "shell": shell, "expect": doc["expect"]}),
            ));
        }
    }
    c.sample = Some(json!({"text": text}));
    Outcome::Pass(c)
}

pub fn run(tier: Tier, seed: u64) -> i32 {
    let mut run = Run::new(
        "C13",
        tier,
        seed,
        "exploration",
        "a clean grammar with literals that need backslash escapes, printed in a random multi-line layout (comments, blank lines, tabs, form feeds, CRLF) with either one planted located mistake (cycle, duplicate plain/@shell definition, varying or invalid command name, unknown shell, non-command specialisation, spaces inside a word behind 0-4 definitions, placeholder followed by something) or a syntax error inserted inside the k-th statement. Oracle: every located span of the library's Error (part 'library') and every PATH:LINE:COL on the binary's stderr (part 'binary') must be a position the printer recorded for a token of the kind that diagnostic is about (statement start for syntax errors; byte or character column), 'previous' must precede 'duplicate', the snippet must be source line LINE and the underline must start under COL. Warnings are located by C15's check over the same printer. Non-trivial: the located token is not on line 1 or is preceded on its line by a backslash escape; distinct by (label, text, position).",
    );
    run.enumerate("regress", load_regress("C13"), false, case_regress);
    run.shards = 3;
    run.shrink_iters = 200;
    if !run.failed() {
        run.random("binary", tier.pick(400, 8_000), 900, |b| case(b, true));
    }
    run.shards = nshards();
    run.shrink_iters = 3000;
    if !run.failed() {
        run.random("library", tier.pick(120_000, 4_000_000), 900, |b| case(b, false));
    }
    let code = run.finish();
    cleanup_scratch();
    code
}

pub fn replay(doc: &serde_json::Value) -> i32 {
    let d = if doc.get("detail").is_some() { &doc["detail"] } else { doc };
    // a replay re-judges the saved text: all located diagnostics must show their own source line
    let Some(text) = d["text"].as_str() else { return 2 };
    let shell = d["shell"].as_str().unwrap_or("bash");
    let sc = Scratch::new();
    let inp = sc.path("d.usage");
    let _ = std::fs::write(&inp, text);
    let path = inp.to_string_lossy().to_string();
    let Ok(out) = complgen(&[format!("--{shell}"), "-".into(), path.clone()], None, &[], None) else { return 2 };
    let diags = diag::parse_stderr(&out.stderr_s(), &path);
    eprintln!("{}", out.stderr_s());
    for dg in &diags {
        let src = text.lines().nth(dg.line - 1).unwrap_or("");
        if dg.snippet.as_ref().map(|(n, s)| *n != dg.line || s != src).unwrap_or(true) {
            println!("VIOLATION property=C13 replay=(given) '{}' at {}:{} does not show its source line", dg.label, dg.line, dg.col);
            return 1;
        }
    }
    if d.get("expect").is_some() {
        if let Outcome::Fail(f) = case_regress(d) {
            println!("VIOLATION property=C13 replay=(given) {}", f.msg);
            return 1;
        }
    }
    0
}
