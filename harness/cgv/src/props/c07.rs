//! C07 — text taken from the grammar reaches the shell verbatim and inert.

use super::c01::compile_bash;
use crate::ast::*;
use crate::bashdrv::{self, Query};
use crate::bin::*;
use crate::engine::*;
use crate::interp::{self, CmdOut, Expect};
use crate::model;
use crate::obs;
use crate::print::*;
use crate::src::Src;
use crate::strconst;
use serde_json::json;
use std::collections::BTreeSet;

const TEMPLATES: [&str; 26] = [
    "$VAR", "$(id)", "`id`", "${x}", "\\$x", "\\", "$$", "$?", "$[1+2]", "a\\\"b", "\\\\", "\"", "$", "`", "!", "*", "?", "[a-z]", "~", "&", "'", "{b}", "$(>CANARY)", "`>CANARY`", "\\`", "%s",
];
const LIT_CHARS: &str = "abxyz019!$%&'*+,-/:=?@^_`~()[]<>|;\"{}\\";
const DESCR_EXTRA: [&str; 10] = [" ", "  ", "\n", "é", "世界", "\u{201C}q\u{201D}", "\u{201E}", "\t", "#", "$(touch CANARY)"];

pub fn gen_text(s: &mut Src, descr: bool) -> String {
    let n = 1 + s.weighted(&[3, 4, 3, 2, 1]);
    let mut t = String::new();
    for _ in 0..n {
        match s.weighted(&[5, 4, if descr { 3 } else { 0 }]) {
            0 => { let x: &str = *s.pick(&TEMPLATES[..]); t.push_str(x) }
            1 => {
                let chars: Vec<char> = LIT_CHARS.chars().collect();
                let k = 1 + s.below(3);
                for _ in 0..k {
                    t.push(*s.pick(&chars));
                }
            }
            _ => { let x: &str = *s.pick(&DESCR_EXTRA[..]); t.push_str(x) }
        }
    }
    if !descr {
        // what the grammar syntax cannot express or the printer rules exclude
        t = t.replace('#', "h");
        if t.is_empty() {
            t.push('a');
        }
    }
    t
}

pub struct Spec {
    pub tops: Vec<(String, Option<String>)>,
    pub prefix: String,
    pub inner: Vec<(String, Option<String>)>,
    /// a second within-word expression of the same shape (same number of values): the emitters share one
    /// table set between same-shaped expressions and print the literals in a wrapper of their own
    pub twin: Option<(String, Vec<(String, Option<String>)>)>,
}

fn prefix_free(v: &mut Vec<(String, Option<String>)>, against: &[String]) {
    let mut keep: Vec<(String, Option<String>)> = vec![];
    for (t, d) in v.drain(..) {
        if keep.iter().any(|(k, _)| k.starts_with(&t) || t.starts_with(k.as_str())) || against.iter().any(|k| k.starts_with(&t) || t.starts_with(k.as_str())) {
            continue;
        }
        keep.push((t, d));
    }
    *v = keep;
}

pub fn gen_spec(s: &mut Src) -> Spec {
    let mut tops = vec![];
    for _ in 0..1 + s.below(3) {
        let t = gen_text(s, false);
        let d = if s.chance(1, 2) { Some(gen_text(s, true)) } else { None };
        tops.push((t, d));
    }
    let prefix = format!("--k{}=", gen_text(s, false));
    let mut inner = vec![];
    for _ in 0..2 + s.below(2) {
        let t = gen_text(s, false);
        let d = if s.chance(1, 3) { Some(gen_text(s, true)) } else { None };
        inner.push((t, d));
    }
    // prefix-free per word expression, the opening literal included (C01's stated domain; overlapping
    // literals inside a word are C12's subject)
    prefix_free(&mut inner, &[prefix.clone()]);
    if inner.len() < 2 {
        inner.push(("v1".into(), None));
        inner.push(("w2".into(), None));
        prefix_free(&mut inner, &[prefix.clone()]);
    }
    let mut twin = None;
    if s.chance(2, 3) {
        let p2 = format!("--j{}=", gen_text(s, false));
        let mut inner2 = vec![];
        for k in 0..inner.len() * 3 {
            if inner2.len() == inner.len() {
                break;
            }
            let t = if k < inner.len() * 2 { gen_text(s, false) } else { format!("t{k}") };
            inner2.push((t, None));
            prefix_free(&mut inner2, &[p2.clone()]);
        }
        if inner2.len() == inner.len() && !p2.starts_with(&prefix) && !prefix.starts_with(&p2) {
            twin = Some((p2, inner2));
        }
    }
    let mut against = vec![prefix.clone(), "next".to_string()];
    if let Some((p2, _)) = &twin {
        against.push(p2.clone());
    }
    prefix_free(&mut tops, &against);
    Spec { tops, prefix, inner, twin }
}

pub fn grammar_of(sp: &Spec) -> G {
    let l = |(t, d): &(String, Option<String>)| E::Lit { text: t.clone(), descr: d.clone() };
    let mut alts: Vec<E> = sp.tops.iter().map(l).collect();
    alts.push(E::Word(vec![lit(&sp.prefix), E::Alt(sp.inner.iter().map(l).collect())]));
    if let Some((p2, inner2)) = &sp.twin {
        alts.push(E::Word(vec![lit(p2), E::Alt(inner2.iter().map(l).collect())]));
    }
    let first = if alts.len() == 1 { alts.pop().unwrap() } else { E::Alt(alts) };
    G { stmts: vec![Stmt::Call { name: "cmd".into(), e: E::Seq(vec![first, lit("next")]) }] }
}

fn special(t: &str) -> bool {
    t.chars().any(|c| "\"\\$`!*?[]~#&'{}()<>|;".contains(c) || !c.is_ascii())
}

/// oracle A: every literal / description constant decodes to the original text and is inert
fn check_constants(sp: &Spec, text: &str, shell: &str) -> Result<Option<usize>, Failure> {
    let t = text.to_string();
    let script = match std::panic::catch_unwind(move || obs::compile(&t, shell).map_err(|(s, k)| format!("{s}: {k}")).and_then(|c| obs::emit(&c, shell))) {
        Ok(Ok(s)) => s,
        Ok(Err(_)) => return Ok(None),
        Err(_) => return Ok(None),
    };
    let detail = |extra: serde_json::Value| json!({"text": text, "shell": shell, "spec": spec_to_json(sp), "info": extra});
    let consts = match strconst::read_constants(shell, &script) {
        Ok(c) => c,
        Err(e) => return Err(Failure::new(format!("{shell} script: a string constant breaks the statement it sits in: {e}"), detail(json!({"reader": e})))),
    };
    let mut want_lits: BTreeSet<String> = sp.tops.iter().map(|(t, _)| t.clone()).chain(sp.inner.iter().map(|(t, _)| t.clone())).chain([sp.prefix.clone(), "next".to_string()]).collect();
    if let Some((p2, inner2)) = &sp.twin {
        want_lits.insert(p2.clone());
        want_lits.extend(inner2.iter().map(|(t, _)| t.clone()));
    }
    let mut got_lits: BTreeSet<String> = BTreeSet::new();
    for (_, arr) in &consts.literal_arrays {
        for l in arr {
            if !l.active.is_empty() {
                return Err(Failure::new(format!("{shell} script: the literal constant for {:?} contains an active {}", l.text, l.active[0]), detail(json!({"decoded": l.text}))));
            }
            if !want_lits.contains(&l.text) {
                return Err(Failure::new(format!("{shell} script: a literal constant reads back as {:?}, which is not a literal of the grammar ({:?})", l.text, want_lits), detail(json!({"decoded": l.text}))));
            }
            got_lits.insert(l.text.clone());
        }
    }
    if got_lits != want_lits {
        return Err(Failure::new(format!("{shell} script: literals {:?} of the grammar are not embedded", want_lits.difference(&got_lits).collect::<Vec<_>>()), detail(json!({}))));
    }
    if shell != "bash" {
        let want_d: BTreeSet<String> = sp.tops.iter().chain(sp.inner.iter()).filter_map(|(_, d)| d.clone()).collect();
        let mut got_d = BTreeSet::new();
        for d in &consts.descriptions {
            if !d.active.is_empty() {
                return Err(Failure::new(format!("{shell} script: the description constant for {:?} contains an active {}", d.text, d.active[0]), detail(json!({"decoded": d.text}))));
            }
            if !want_d.contains(&d.text) {
                return Err(Failure::new(format!("{shell} script: a description constant reads back as {:?}, which is not a description of the grammar ({:?})", d.text, want_d), detail(json!({"decoded": d.text}))));
            }
            got_d.insert(d.text.clone());
        }
        if got_d != want_d {
            return Err(Failure::new(format!("{shell} script: descriptions {:?} of the grammar are not embedded", want_d.difference(&got_d).collect::<Vec<_>>()), detail(json!({}))));
        }
    }
    Ok(Some(consts.literal_arrays.iter().map(|(_, a)| a.len()).sum::<usize>() + consts.descriptions.len()))
}

fn spec_to_json(sp: &Spec) -> serde_json::Value {
    json!({"tops": sp.tops, "prefix": sp.prefix, "inner": sp.inner, "twin": sp.twin.as_ref().map(|(p, i)| json!({"prefix": p, "inner": i}))})
}

fn spec_from_json(d: &serde_json::Value) -> Option<Spec> {
    let pairs = |v: &serde_json::Value| -> Vec<(String, Option<String>)> {
        v.as_array().map(|a| a.iter().filter_map(|x| Some((x.get(0)?.as_str()?.to_string(), x.get(1).and_then(|y| y.as_str()).map(|s| s.to_string())))).collect()).unwrap_or_default()
    };
    let twin = d.get("twin").and_then(|t| if t.is_null() { None } else { Some((t["prefix"].as_str()?.to_string(), pairs(&t["inner"]))) });
    Some(Spec { tops: pairs(&d["tops"]), prefix: d["prefix"].as_str()?.to_string(), inner: pairs(&d["inner"]), twin })
}

fn near_misses(s: &mut Src, lit: &str) -> Vec<String> {
    let cs: Vec<char> = lit.chars().collect();
    let mut v = vec![];
    // globs that match the literal
    if cs.len() >= 2 {
        v.push(format!("{}*", cs[..1].iter().collect::<String>()));
        let mut q = cs.clone();
        let i = s.below(q.len());
        q[i] = '?';
        v.push(q.iter().collect());
        let mut b: String = cs[..cs.len() - 1].iter().collect();
        b.push_str(&format!("[{}]", cs[cs.len() - 1]));
        v.push(b);
    } else {
        v.push("?".into());
        v.push("*".into());
    }
    // one character changed / dropped
    let mut c = cs.clone();
    let i = s.below(c.len());
    c[i] = if c[i] == 'q' { 'r' } else { 'q' };
    v.push(c.iter().collect());
    if cs.len() > 1 {
        v.push(cs[..cs.len() - 1].iter().collect());
    }
    // what an expansion of the literal would have produced
    v.push(lit.replace("$VAR", "").replace("$x", "").replace("\\\\", "\\"));
    v.retain(|x| x != lit && !x.is_empty());
    v.truncate(4);
    v
}

fn judge(sp: &Spec, with_bash: bool, qbytes: &[u8]) -> Outcome {
    let g = grammar_of(sp);
    let text = print_minimal(&g);
    let mut c = Case::new(text.clone());
    c.evals = 0;
    for shell in obs::SHELLS {
        match check_constants(sp, &text, shell) {
            Err(f) => return Outcome::Fail(f),
            Ok(None) => c.exclude("rejected (C08) or panic (C06)", 1),
            Ok(Some(n)) => c.evals += n as u64,
        }
    }
    if c.evals == 0 {
        return Outcome::Skip("rejected".into());
    }
    let empty: Vec<(String, Option<String>)> = vec![];
    for (t, d) in sp.tops.iter().chain(sp.inner.iter()).chain(sp.twin.as_ref().map(|(_, i)| i).unwrap_or(&empty).iter()) {
        if special(t) {
            c.extra_keys.push(format!("L|{t}"));
        }
        if let Some(d) = d {
            if special(d) {
                c.extra_keys.push(format!("D|{d}"));
            }
        }
    }
    if with_bash {
        let detail = |q: serde_json::Value| json!({"text": text, "shell": "bash", "spec": spec_to_json(sp), "bash": true, "query": q});
        let script = match compile_bash(&text) {
            Ok(s) => s,
            Err(Outcome::Skip(_)) => return Outcome::Pass(c),
            Err(o) => return o,
        };
        if let Err(e) = bashdrv::bash_n(&script) {
            return Outcome::Fail(Failure::new(format!("the emitted bash script does not pass `bash -n`: {e}"), detail(json!(null))));
        }
        let Ok(b) = model::denote(&g, "bash") else { return Outcome::Broken("model".into()) };
        let cmds = CmdOut::new();
        let mut s = Src::new(qbytes);
        let mut qs: Vec<(Vec<String>, String, &'static str)> = vec![(vec![], String::new(), "all candidates"), (vec![], sp.prefix.clone(), "candidates inside the word")];
        let mut all: Vec<String> = sp.tops.iter().map(|(t, _)| t.clone()).chain(sp.inner.iter().map(|(t, _)| format!("{}{}", sp.prefix, t))).collect();
        if let Some((p2, inner2)) = &sp.twin {
            qs.push((vec![], p2.clone(), "candidates inside the twin word"));
            all.extend(inner2.iter().map(|(t, _)| format!("{p2}{t}")));
        }
        for w in all.iter() {
            qs.push((vec![w.clone()], String::new(), "identical word advances"));
        }
        let pick = all[s.below(all.len())].clone();
        let base = if pick.starts_with(&sp.prefix) {
            (sp.prefix.clone(), pick[sp.prefix.len()..].to_string())
        } else if let Some((p2, _)) = sp.twin.as_ref().filter(|(p2, _)| pick.starts_with(p2.as_str())) {
            (p2.clone(), pick[p2.len()..].to_string())
        } else {
            (String::new(), pick.clone())
        };
        for nm in near_misses(&mut s, &base.1) {
            qs.push((vec![format!("{}{}", base.0, nm)], String::new(), "near miss must not advance"));
        }
        // typed prefixes of a literal
        let cs: Vec<char> = base.1.chars().collect();
        let k = 1 + s.below(cs.len());
        qs.push((vec![], format!("{}{}", base.0, cs[..k].iter().collect::<String>()), "prefix of a literal"));
        let bq: Vec<Query> = qs.iter().map(|(w, cur, _)| Query { words: w.clone(), cur: cur.clone(), wordbreaks: Some(String::new()) }).collect();
        let sess = bashdrv::Session { script: &script, func: "_cmd".into(), command: "cmd".into(), prelude: String::new() };
        let (replies, files) = match bashdrv::run_listing(&sess, &bq) {
            Ok(r) => r,
            Err(bashdrv::DrvError::Infra(e)) => return Outcome::Broken(e),
            Err(bashdrv::DrvError::Source(rc, e)) => return Outcome::Fail(Failure::new(format!("sourcing the emitted script in bash failed ({rc}): {e}"), detail(json!(null)))),
        };
        if !files.is_empty() {
            return Outcome::Fail(Failure::new(format!("completing created files {:?} in the working directory: text of the grammar was executed", files), detail(json!(null))));
        }
        for ((w, cur, what), rep) in qs.iter().zip(replies.iter()) {
            c.evals += 1;
            let want = match interp::expect(&b, &cmds, w, cur, "") {
                Expect::Candidates(s) => s,
                Expect::Dead { .. } => BTreeSet::new(),
                Expect::Ambiguous(a) => return Outcome::Broken(format!("unexpected ambiguity {a}")),
            };
            let got: BTreeSet<String> = rep.compreply.iter().cloned().collect();
            if got != want || !rep.stderr_note.is_empty() {
                return Outcome::Fail(Failure::new(
                    format!("bash ({what}): after {:?} + typed {:?} COMPREPLY is {:?}{}; character for character it must be {:?}", w, cur, rep.compreply, if rep.stderr_note.is_empty() { String::new() } else { format!(" (stderr: {})", rep.stderr_note) }, want),
                    detail(json!({"words": w, "cur": cur})),
                ));
            }
            c.class(format!("bash:{what}"));
        }
    }
    c.sample = Some(json!({"text": text}));
    Outcome::Pass(c)
}

fn case(bytes: &[u8], with_bash: bool) -> Outcome {
    let n = bytes.len();
    let (a, b) = bytes.split_at(n * 3 / 4);
    let sp = gen_spec(&mut Src::new(a));
    judge(&sp, with_bash, b)
}

fn case_regress(doc: &serde_json::Value) -> Outcome {
    let d = if doc.get("spec").is_some() { &doc["spec"] } else { doc };
    match spec_from_json(d) {
        Some(sp) => judge(&sp, true, &[7, 99, 200, 31, 5, 180, 66, 240]),
        None => Outcome::Broken("bad regress file".into()),
    }
}

pub fn run(tier: Tier, seed: u64) -> i32 {
    let mut run = Run::new(
        "C07",
        tier,
        seed,
        "exploration",
        "grammars `cmd (L1 \"d1\" | L2 | --kP=(W1 \"d\" | W2 | W3)) next;` whose literals, prefix and descriptions are generated over the whole admitted character set with a bias to dangerous combinations (backslash before $ ` \" \\, trailing backslash, $VAR, $(...), `...`, ${...}, $$, $?, $[...], !, *, ?, [a-z], ~, &, ', braces, curly quotes, newlines and non-ASCII in descriptions, canary commands). Oracle A (4 shells, in-process): every literal array and every description constant of the emitted script is read with an independent implementation of that shell's documented double-quote rules; each constant must decode to exactly a literal / description of the grammar, contain no active expansion, and leave its statement well-formed; the decoded sets must equal the grammar's. Oracle B (bash execution): `bash -n`; candidates with empty prefix and inside the word, typed prefixes, every literal as an identical word (must advance to `next`), near misses generated from a literal (globs matching it, one character changed or dropped, its would-be expansion; must not advance) are compared character for character with the reference interpreter; no file may appear in the working directory. Non-trivial: the string contains a shell-special or non-ASCII character; distinct by string.",
    );
    run.assumptions.push("fish, zsh and pwsh are not installed: their constants are decoded by the harness's lexers written from the shells' documentation".into());
    run.enumerate("regress", load_regress("C07"), false, case_regress);
    run.shards = 2;
    run.shrink_iters = 60;
    if !run.failed() {
        run.random("bash", tier.pick(60, 1_500), 300, |b| case(b, true));
    }
    run.shards = nshards();
    run.shrink_iters = 3000;
    if !run.failed() {
        run.random("constants", tier.pick(60_000, 3_000_000), 300, |b| case(b, false));
    }
    let code = run.finish();
    cleanup_scratch();
    code
}

pub fn replay(doc: &serde_json::Value) -> i32 {
    let d = if doc.get("detail").is_some() { &doc["detail"] } else { doc };
    let r = case_regress(d);
    cleanup_scratch();
    match r {
        Outcome::Fail(f) => {
            println!("VIOLATION property=C07 replay=(given) {}", f.msg);
            1
        }
        Outcome::Broken(_) => 2,
        _ => 0,
    }
}
