//! C12 — inside a word, overlapping alternatives are told apart correctly.

use super::c01::compile_bash;
use crate::ast::*;
use crate::bashdrv::{self, Query};
use crate::bin::*;
use crate::engine::*;
use crate::interp::{self, CmdOut, Expect};
use crate::model;
use crate::print::*;
use crate::src::Src;
use serde_json::json;
use std::collections::BTreeSet;

pub struct Spec {
    pub prefix: String,
    /// value sets per `||` level
    pub levels: Vec<Vec<String>>,
    pub sep: Option<(String, Vec<String>)>,
    pub lead: Option<String>,
    pub next: Vec<String>,
}

fn gen_values(s: &mut Src, alphabet: &[char]) -> Vec<String> {
    let mut vals: Vec<String> = vec![];
    let roots = 1 + s.below(2);
    for _ in 0..roots {
        let len = 2 + s.below(3);
        let root: String = (0..len).map(|_| *s.pick(alphabet)).collect();
        // prefixes of the root: the chains the property is about
        for l in 1..=root.len() {
            if l == root.len() || s.chance(5, 8) {
                let v = root[..l].to_string();
                if !vals.contains(&v) {
                    vals.push(v);
                }
            }
        }
    }
    for _ in 0..s.below(3) {
        let len = 1 + s.below(3);
        let v: String = (0..len).map(|_| *s.pick(alphabet)).collect();
        if !vals.contains(&v) {
            vals.push(v);
        }
    }
    vals.truncate(7);
    // at least two values (a lone literal next to the prefix literal is one literal, not an alternation)
    for extra in ["a", "b"] {
        if vals.len() < 2 && !vals.iter().any(|v| v == extra) {
            vals.push(extra.to_string());
        }
    }
    // order in the grammar is arbitrary
    for i in (1..vals.len()).rev() {
        let j = s.below(i + 1);
        vals.swap(i, j);
    }
    vals
}

pub fn gen_spec(s: &mut Src) -> Spec {
    let alphabet: Vec<char> = if s.bool() { vec!['a', 'b'] } else { vec!['a', 'b', 'c'] };
    let prefix = s.pick(&["--opt=", "-o", "k=", "--level=", "p:"]).to_string();
    let vals = gen_values(s, &alphabet);
    let levels = if vals.len() >= 3 && s.chance(1, 4) {
        let cut = 1 + s.below(vals.len() - 1);
        // a level with one value is fine under ||: (a || b | c)
        vec![vals[..cut].to_vec(), vals[cut..].to_vec()]
    } else {
        vec![vals]
    };
    let sep = if s.chance(1, 3) { Some((s.pick(&[",", "/", "+"]).to_string(), gen_values(s, &alphabet))) } else { None };
    let lead = if s.chance(1, 3) { Some("sub".to_string()) } else { None };
    let next = if s.bool() { vec!["next".to_string()] } else { vec!["nx1".to_string(), "ny2".to_string()] };
    Spec { prefix, levels, sep, lead, next }
}

pub fn grammar_of(sp: &Spec) -> G {
    let alt = |v: &Vec<String>| if v.len() == 1 { lit(&v[0]) } else { E::Alt(v.iter().map(|x| lit(x)).collect()) };
    let vals = if sp.levels.len() == 1 { alt(&sp.levels[0]) } else { E::Fb(sp.levels.iter().map(alt).collect()) };
    let mut pieces = vec![lit(&sp.prefix), vals];
    if let Some((sep, v2)) = &sp.sep {
        pieces.push(E::Opt(Box::new(E::Word(vec![lit(sep), alt(v2)]))));
    }
    let mut seq = vec![];
    if let Some(l) = &sp.lead {
        seq.push(lit(l));
    }
    seq.push(E::Word(pieces));
    seq.push(if sp.next.len() == 1 { lit(&sp.next[0]) } else { E::Alt(sp.next.iter().map(|x| lit(x)).collect()) });
    seq.push(E::Opt(Box::new(lit("more"))));
    G { stmts: vec![Stmt::Call { name: "cmd".into(), e: E::Seq(seq) }] }
}

#[derive(Clone, Debug)]
pub struct Q {
    pub words: Vec<String>,
    pub cur: String,
    /// Some((typed value part, which value set)) for cursor-inside-value queries
    pub typed: Option<(String, usize)>,
    pub chain: bool,
}

pub fn queries_of(sp: &Spec) -> Vec<Q> {
    let mut out = vec![];
    let lead: Vec<String> = sp.lead.iter().cloned().collect();
    let all: Vec<String> = sp.levels.iter().flatten().cloned().collect();
    let is_chain = |v: &String, set: &Vec<String>| set.iter().any(|o| o != v && o.starts_with(v.as_str()));
    // every value fully typed, cursor at the next word
    for v in &all {
        let mut w = lead.clone();
        w.push(format!("{}{}", sp.prefix, v));
        out.push(Q { words: w.clone(), cur: String::new(), typed: None, chain: is_chain(v, &all) });
        out.push(Q { words: w, cur: "n".into(), typed: None, chain: is_chain(v, &all) });
        if let Some((sep, v2)) = &sp.sep {
            for x in v2.iter().take(3) {
                let mut w2 = lead.clone();
                w2.push(format!("{}{}{}{}", sp.prefix, v, sep, x));
                out.push(Q { words: w2, cur: String::new(), typed: None, chain: is_chain(v, &all) || is_chain(x, v2) });
            }
        }
    }
    // every prefix of every value as the cursor word
    let mut seen = BTreeSet::new();
    for v in &all {
        for l in 0..=v.len() {
            let p = v[..l].to_string();
            if seen.insert(p.clone()) {
                out.push(Q { words: lead.clone(), cur: format!("{}{}", sp.prefix, p), typed: Some((p, 0)), chain: all.iter().filter(|o| o.starts_with(&v[..l])).count() >= 2 });
            }
        }
    }
    if let Some((sep, v2)) = &sp.sep {
        let v = &all[0];
        let mut seen2 = BTreeSet::new();
        for x in v2 {
            for l in 0..=x.len() {
                let p = x[..l].to_string();
                if seen2.insert(p.clone()) {
                    out.push(Q { words: lead.clone(), cur: format!("{}{}{}{}", sp.prefix, v, sep, p), typed: Some((p, 1)), chain: true });
                }
            }
        }
    }
    out
}

fn judge(sp: &Spec) -> Outcome {
    let g = grammar_of(sp);
    let text = print_minimal(&g);
    let Ok(b) = model::denote(&g, "bash") else { return Outcome::Broken("model".into()) };
    let cmds = CmdOut::new();
    let script = match compile_bash(&text) {
        Ok(s) => s,
        Err(Outcome::Skip(why)) => return Outcome::Fail(Failure::new(format!("a grammar with overlapping values inside a word was rejected: {why}"), json!({"text": text, "g": g.to_json()}))),
        Err(o) => return o,
    };
    let qs = queries_of(sp);
    let bq: Vec<Query> = qs.iter().map(|q| Query { words: q.words.clone(), cur: q.cur.clone(), wordbreaks: Some(String::new()) }).collect();
    let sess = bashdrv::Session { script: &script, func: "_cmd".into(), command: "cmd".into(), prelude: String::new() };
    let replies = match bashdrv::run(&sess, &bq) {
        Ok(r) => r,
        Err(bashdrv::DrvError::Infra(e)) => return Outcome::Broken(e),
        Err(bashdrv::DrvError::Source(rc, e)) => return Outcome::Fail(Failure::new(format!("sourcing the script failed ({rc}): {e}"), json!({"text": text, "g": g.to_json()}))),
    };
    let mut c = Case::new(text.clone());
    c.evals = 0;
    for (q, rep) in qs.iter().zip(replies.iter()) {
        let observed: BTreeSet<String> = rep.compreply.iter().cloned().collect();
        let detail = |exp: String| json!({"text": text, "g": g.to_json(), "words": q.words, "cur": q.cur, "observed": {"rc": rep.rc, "compreply": rep.compreply}, "expected": exp});
        c.evals += 1;
        match &q.typed {
            None => {
                // a fully typed value is a complete word: exact answer from the reference interpreter
                let want = interp::expect(&b, &cmds, &q.words, &q.cur, "");
                let want_set = match &want {
                    Expect::Candidates(s) => s.clone(),
                    Expect::Dead { .. } => BTreeSet::new(),
                    Expect::Ambiguous(a) => return Outcome::Broken(format!("unexpected ambiguity: {a}")),
                };
                if observed != want_set {
                    return Outcome::Fail(Failure::new(
                        format!("after the fully typed word {:?} bash offers {:?} (rc {}) for typed {:?}; the grammar prescribes {:?}", q.words.last().unwrap(), rep.compreply, rep.rc, q.cur, want_set),
                        detail(format!("{:?}", want_set)),
                    ));
                }
            }
            Some((typed, which)) => {
                let (sets, head): (Vec<Vec<String>>, String) = if *which == 0 {
                    (sp.levels.clone(), sp.prefix.clone())
                } else {
                    let (sep, v2) = sp.sep.as_ref().unwrap();
                    (vec![v2.clone()], format!("{}{}{}", sp.prefix, sp.levels.iter().flatten().next().unwrap(), sep))
                };
                // first level that has a value extending the typed text (the typed text itself included)
                let lvl = sets.iter().position(|vs| vs.iter().any(|v| v.starts_with(typed.as_str())));
                let lower: BTreeSet<String> = match lvl {
                    Some(l) => sets[l].iter().filter(|v| v.starts_with(typed.as_str()) && v.len() > typed.len()).map(|v| format!("{head}{v}")).collect(),
                    None => BTreeSet::new(),
                };
                let mut upper: BTreeSet<String> = sets.iter().flatten().filter(|v| v.starts_with(typed.as_str())).map(|v| format!("{head}{v}")).collect();
                // when the typed text is itself a value, what may follow it inside the word is legitimate too
                for (l, cand) in interp::word_continuations(b.words.values().next().unwrap(), &cmds, &q.cur) {
                    let _ = l;
                    upper.insert(cand);
                }
                if !(lower.is_subset(&observed) && observed.is_subset(&upper)) {
                    return Outcome::Fail(Failure::new(
                        format!("typed {:?}: bash offers {:?} (rc {}); the allowed values that extend it are {:?} (at most {:?})", q.cur, rep.compreply, rep.rc, lower, upper),
                        detail(format!("{:?}..{:?}", lower, upper)),
                    ));
                }
            }
        }
        if q.chain {
            c.extra_keys.push(format!("{}|{:?}|{}", text, q.words, q.cur));
        }
    }
    if sp.levels.len() > 1 {
        c.class("values_under_||");
    }
    if sp.sep.is_some() {
        c.class("second_value_set_after_separator");
    }
    c.class(format!("values:{}", sp.levels.iter().flatten().count()));
    c.sample = Some(json!({"text": text, "queries": qs.iter().take(4).map(|q| json!({"words": q.words, "cur": q.cur})).collect::<Vec<_>>()}));
    Outcome::Pass(c)
}

fn spec_from_json(d: &serde_json::Value) -> Option<Spec> {
    let strs = |v: &serde_json::Value| -> Vec<String> { v.as_array().map(|a| a.iter().filter_map(|x| x.as_str().map(|s| s.to_string())).collect()).unwrap_or_default() };
    Some(Spec {
        prefix: d["prefix"].as_str()?.to_string(),
        levels: d["levels"].as_array()?.iter().map(strs).collect(),
        sep: d.get("sep").and_then(|s| if s.is_null() { None } else { Some((s["sep"].as_str()?.to_string(), strs(&s["values"]))) }),
        lead: d["lead"].as_str().map(|s| s.to_string()),
        next: strs(&d["next"]),
    })
}

fn spec_to_json(sp: &Spec) -> serde_json::Value {
    json!({"prefix": sp.prefix, "levels": sp.levels, "sep": sp.sep.as_ref().map(|(s, v)| json!({"sep": s, "values": v})), "lead": sp.lead, "next": sp.next})
}

fn case(bytes: &[u8]) -> Outcome {
    let sp = gen_spec(&mut Src::new(bytes));
    match judge(&sp) {
        Outcome::Fail(mut f) => {
            if let serde_json::Value::Object(m) = &mut f.detail {
                m.insert("spec".into(), spec_to_json(&sp));
            }
            Outcome::Fail(f)
        }
        o => o,
    }
}

fn case_regress(doc: &serde_json::Value) -> Outcome {
    let d = if doc.get("spec").is_some() { &doc["spec"] } else { doc };
    match spec_from_json(d) {
        Some(sp) => judge(&sp),
        None => Outcome::Broken("bad regress file".into()),
    }
}

pub fn run(tier: Tier, seed: u64) -> i32 {
    let mut run = Run::new(
        "C12",
        tier,
        seed,
        "exploration",
        "grammars `cmd [sub] PREFIX(v1|...|vk)[SEP(w1|...)] next [more]` whose value sets are built from prefix chains over a 2-3 letter alphabet (a, ab, abc, abd, b, ...; 2-7 values, optionally split over two || levels, optionally followed inside the word by a separator and a second value set), compiled with the real binary and executed in bash. Queries: every value fully typed as a complete word (also value+SEP+value) followed by the cursor at the next word -> exact answer of the reference interpreter (the following items must be offered: the longest value is read, a shorter value is recognised although longer ones exist); every prefix of every value as the cursor word -> lower bound: all allowed values of the first matching level that properly extend the typed text must be offered; upper bound: nothing but allowed values extending it (the typed value itself included) and what may follow a complete value inside the word. Non-trivial: the typed value is a proper prefix of another allowed value; distinct by (grammar, words, prefix).",
    );
    run.shards = 2;
    run.shrink_iters = 40;
    run.enumerate("regress", load_regress("C12"), false, case_regress);
    if !run.failed() {
        run.random("bash", tier.pick(40, 1_000), 64, case);
    }
    let code = run.finish();
    cleanup_scratch();
    code
}

pub fn replay(doc: &serde_json::Value) -> i32 {
    let d = if doc.get("detail").is_some() { &doc["detail"] } else { doc };
    let r = case_regress(d);
    cleanup_scratch();
    match r {
        Outcome::Fail(f) => {
            println!("VIOLATION property=C12 replay=(given) {}", f.msg);
            1
        }
        Outcome::Broken(_) => 2,
        _ => 0,
    }
}
