//! C14 — layout and statement order do not change the output.

use super::common::*;
use crate::ast::*;
use crate::bin::*;
use crate::engine::*;
use crate::gen_clean::{gen_clean, Profile};
use crate::obs;
use crate::print::*;
use crate::src::Src;
use serde_json::json;

/// a permutation of the statements that keeps the call variants in their relative order
pub fn permute(s: &mut Src, g: &G) -> Vec<usize> {
    let n = g.stmts.len();
    let mut idx: Vec<usize> = (0..n).collect();
    // Fisher-Yates driven by the stream (identity on an exhausted stream)
    for i in (1..n).rev() {
        let j = i - s.below(i + 1).min(i);
        idx.swap(i, j);
    }
    let calls: Vec<usize> = (0..n).filter(|i| matches!(g.stmts[*i], Stmt::Call { .. })).collect();
    let mut k = 0;
    for slot in idx.iter_mut() {
        if matches!(g.stmts[*slot], Stmt::Call { .. }) {
            *slot = calls[k];
            k += 1;
        }
    }
    idx
}

fn emit_all(text: &str) -> Result<Vec<Result<String, String>>, String> {
    let mut out = vec![];
    for shell in obs::SHELLS {
        let t = text.to_string();
        let r = std::panic::catch_unwind(move || obs::compile(&t, shell).map_err(|(st, k)| format!("{st}: {k}")).and_then(|c| obs::emit(&c, shell)));
        match r {
            Ok(x) => out.push(x),
            Err(_) => return Err("panic".into()),
        }
    }
    Ok(out)
}

fn sorted_tree(text: &str) -> Option<Vec<String>> {
    let g = complgen::parse::Grammar::parse(text).ok()?;
    let a = obs::grammar_to_ast(&g);
    // call variants keep their order; definitions are compared as a set
    let mut calls = vec![];
    let mut defs = vec![];
    for s in &a.stmts {
        match s {
            Stmt::Call { .. } => calls.push(format!("{:?}", s)),
            Stmt::Def { .. } => defs.push(format!("{:?}", s)),
        }
    }
    defs.sort();
    calls.extend(defs);
    Some(calls)
}

struct Pair {
    g: G,
    a: Printed,
    b: Printed,
    reordered: bool,
}

fn make_pair(bytes: &[u8]) -> Pair {
    let n = bytes.len();
    let (ga, rest) = bytes.split_at(n / 2);
    let (la, lb) = rest.split_at(rest.len() / 2);
    let mut s = Src::new(ga);
    let (g, _) = gen_clean(&mut s, &Profile::general());
    let mk = |data: &[u8], g: &G| -> (Printed, bool) {
        let mut ps = Src::new(data);
        let perm_bytes: Vec<u8> = (0..12).map(|_| ps.byte()).collect();
        let order = permute(&mut Src::new(&perm_bytes), g);
        let reordered = order.iter().enumerate().any(|(i, j)| i != *j);
        let rest: Vec<u8> = (0..data.len().saturating_sub(12)).map(|_| ps.byte()).collect();
        let mut st = Style::random(&rest);
        st.allow_redundant_parens = true;
        st.blank_weight = 4;
        (print_grammar(g, &mut st, Some(&order)), reordered)
    };
    let (a, ra) = mk(la, &g);
    let (b, rb) = mk(lb, &g);
    Pair { g, a, b, reordered: ra || rb }
}

fn case(bytes: &[u8], with_bin: bool) -> Outcome {
    let p = make_pair(bytes);
    let (ta, tb) = (&p.a.text, &p.b.text);
    // the printer's rules are C05's subject (print/parse round trip over the same printer); if the renderings
    // parse to different trees here, the scripts decide, and the message says that the trees differ
    let trees_differ = match (sorted_tree(ta), sorted_tree(tb)) {
        (Some(x), Some(y)) => x != y,
        (None, None) => false,
        _ => true,
    };
    let note = if trees_differ { " [the two renderings do not parse to the same tree]" } else { "" };
    let detail = |shell: &str| json!({"a": ta, "b": tb, "g": p.g.to_json(), "shell": shell});
    let (ea, eb) = match (emit_all(ta), emit_all(tb)) {
        (Ok(a), Ok(b)) => (a, b),
        _ => return Outcome::Skip("panic (C06's business)".into()),
    };
    let mut c = Case::new(format!("{:?}", p.g));
    c.evals = 0;
    for (i, shell) in obs::SHELLS.iter().enumerate() {
        c.evals += 1;
        match (&ea[i], &eb[i]) {
            (Ok(x), Ok(y)) => {
                if x != y {
                    let at = x.bytes().zip(y.bytes()).position(|(p, q)| p != q).unwrap_or(x.len().min(y.len()));
                    let ctx = |s: &str| s[s.char_indices().map(|(i, _)| i).filter(|i| *i <= at.saturating_sub(60)).last().unwrap_or(0)..].chars().take(160).collect::<String>();
                    return Outcome::Fail(Failure::new(
                        format!("two layouts of one grammar compile to different {shell} scripts{note} (first difference at byte {at}: {:?} vs {:?})", ctx(x), ctx(y)),
                        detail(shell),
                    ));
                }
            }
            (Err(x), Err(y)) => {
                if x != y {
                    return Outcome::Fail(Failure::new(format!("two layouts of one grammar are rejected differently for {shell}{note}: {x} vs {y}"), detail(shell)));
                }
                c.exclude("rejected by the pipeline for both layouts (C08's business)", 1);
            }
            (x, y) => {
                return Outcome::Fail(Failure::new(
                    format!("one layout is accepted for {shell}, the other is not{note}: {:?} vs {:?}", x.as_ref().map(|_| "ok"), y.as_ref().map(|_| "ok")),
                    detail(shell),
                ))
            }
        }
    }
    if with_bin {
        let shell = obs::SHELLS[(bytes.first().copied().unwrap_or(0) % 4) as usize];
        let sc = Scratch::new();
        let (pa, pb) = (sc.path("a.usage"), sc.path("b.usage"));
        if std::fs::write(&pa, ta).is_err() || std::fs::write(&pb, tb).is_err() {
            return Outcome::Broken("cannot write scratch files".into());
        }
        let run = |p: &std::path::Path| complgen(&[format!("--{shell}"), "-".into(), p.to_string_lossy().to_string()], None, &[], None);
        let (ra, rb) = match (run(&pa), run(&pb)) {
            (Ok(a), Ok(b)) => (a, b),
            _ => return Outcome::Broken("cannot run the binary".into()),
        };
        if ra.timed_out || rb.timed_out {
            return Outcome::Broken("binary timed out".into());
        }
        c.evals += 1;
        c.class("binary_pair");
        if ra.status != rb.status || ra.stdout != rb.stdout {
            return Outcome::Fail(Failure::new(
                format!("complgen --{shell}: two layouts of one grammar give different results (status {:?} vs {:?}, stdout equal: {})", ra.status, rb.status, ra.stdout == rb.stdout),
                detail(shell),
            ));
        }
    }
    let ndefs = p.g.defs().count();
    if ndefs >= 2 && (p.reordered || p.a.layout_choices + p.b.layout_choices >= 5) {
        c.nontrivial = true;
    }
    if p.reordered {
        c.class("definitions_reordered");
    }
    if ta.contains("::=") != tb.contains("::=") {
        c.class("assign_spelling_differs");
    }
    if ta.matches('(').count() != tb.matches('(').count() {
        c.class("parentheses_differ");
    }
    if ta.contains('#') || tb.contains('#') {
        c.class("comments");
    }
    for f in features(&p.g) {
        c.class(f);
    }
    c.sample = Some(json!({"a": ta, "b": tb}));
    Outcome::Pass(c)
}

fn case_regress(doc: &serde_json::Value) -> Outcome {
    let (Some(a), Some(b)) = (doc["a"].as_str(), doc["b"].as_str()) else { return Outcome::Broken("bad regress file".into()) };
    let (ea, eb) = match (emit_all(a), emit_all(b)) {
        (Ok(a), Ok(b)) => (a, b),
        _ => return Outcome::Broken("panic".into()),
    };
    let mut c = Case::new(a);
    c.evals = 4;
    for (i, shell) in obs::SHELLS.iter().enumerate() {
        if ea[i] != eb[i] {
            return Outcome::Fail(Failure::new(format!("two layouts of one grammar compile differently for {shell}"), json!({"a": a, "b": b, "shell": shell})));
        }
    }
    c.nontrivial = true;
    c.sample = Some(json!({"a": a, "b": b}));
    Outcome::Pass(c)
}

pub fn run(tier: Tier, seed: u64) -> i32 {
    let mut run = Run::new(
        "C14",
        tier,
        seed,
        "exploration",
        "metamorphic: one clean grammar (definitions, specialisations, words, ||, descriptions), two independent renderings that differ in blanks/tabs/newlines/CRLF/form feeds/# comments at every token boundary, '=' vs '::=', final ';', redundant parentheses around space-separated items outside words, and the order of the statements (call variants keep their relative order). Oracle: byte-identical script for each of the 4 shells through the library pipeline (same verdict and same error when rejected); part 'binary': stdout and exit status of the real binary for one shell. Non-trivial: >=2 definitions and (statement order differs or >=5 layout choices); distinct by grammar tree.",
    );
    run.enumerate("regress", load_regress("C14"), false, case_regress);
    run.shards = 3;
    run.shrink_iters = 200;
    run.random("binary", tier.pick(120, 6_000), 900, |b| case(b, true));
    run.shards = nshards();
    run.shrink_iters = 4000;
    if !run.failed() {
        run.random("library", tier.pick(100_000, 4_000_000), 900, |b| case(b, false));
    }
    let code = run.finish();
    cleanup_scratch();
    code
}

pub fn replay(doc: &serde_json::Value) -> i32 {
    let d = if doc.get("detail").is_some() { &doc["detail"] } else { doc };
    match case_regress(d) {
        Outcome::Fail(f) => {
            println!("VIOLATION property=C14 replay=(given) {}", f.msg);
            1
        }
        Outcome::Broken(_) => 2,
        _ => 0,
    }
}
