//! C15 — warnings are complete, precise and harmless.

use super::common::*;
use crate::ast::*;
use crate::bin::*;
use crate::diag;
use crate::engine::*;
use crate::gen_clean::{gen_clean, Profile};
use crate::model::{distribute, Resolver};
use crate::obs;
use crate::print::*;
use crate::src::Src;
use serde_json::json;
use std::collections::{BTreeMap, BTreeSet};

#[derive(Clone, Debug, PartialEq, Eq, Default)]
pub struct Expected {
    pub undefined: BTreeSet<String>,
    pub unused: BTreeSet<String>,
    pub unused_spec: BTreeSet<String>,
}

/// names any statement refers to
pub fn referenced_names(g: &G) -> BTreeSet<String> {
    let mut r = BTreeSet::new();
    for e in g.exprs() {
        e.walk(&mut |x| {
            if let E::Nt(n) = x {
                r.insert(n.clone());
            }
        });
    }
    r
}

/// the warnings the statement prescribes for target `shell` (None: the model cannot elaborate the grammar)
pub fn expected_warnings(g: &G, shell: &str) -> Option<Expected> {
    let mut r = Resolver::new(g, shell);
    for (_, e) in g.calls() {
        let d = distribute(e, &mut None);
        r.resolve(&d, &mut vec![]).ok()?;
    }
    let refd = referenced_names(g);
    let mut ex = Expected::default();
    ex.undefined = r.undefined.iter().filter(|n| *n != "_").cloned().collect();
    for (name, sh, _) in g.defs() {
        match sh {
            None => {
                if !refd.contains(name) {
                    ex.unused.insert(name.clone());
                }
            }
            Some(s) if s == shell => {
                if !refd.contains(name) {
                    ex.unused_spec.insert(name.clone());
                }
            }
            _ => {}
        }
    }
    Some(ex)
}

/// the same grammar without the definitions nobody refers to (warnings must be harmless)
pub fn without_unreferenced(g: &G) -> G {
    let refd = referenced_names(g);
    G {
        stmts: g
            .stmts
            .iter()
            .filter(|s| match s {
                Stmt::Def { name, .. } => refd.contains(name),
                _ => true,
            })
            .cloned()
            .collect(),
    }
}

const SH: [&str; 4] = ["bash", "fish", "zsh", "pwsh"];

/// extra statements that exercise the bookkeeping: unused definitions (chains of them), unused
/// specialisations for target and non-target shells, names defined for some shells only
pub fn inject_extras(s: &mut Src, g: &G) -> (G, bool) {
    let mut g = g.clone();
    let mut via_unused = false;
    let existing: Vec<String> = g.defs().filter(|(_, sh, _)| sh.is_none()).map(|(n, _, _)| n.clone()).collect();
    let n_unused = s.weighted(&[3, 3, 2, 1]);
    for k in (0..n_unused).rev() {
        let name = format!("UN{k}");
        let mut items: Vec<E> = vec![lit("un")];
        if k + 1 < n_unused && s.bool() {
            // referred to only by an unused definition: not unused itself
            items.push(nt(&format!("UN{}", k + 1)));
            via_unused = true;
        }
        if s.chance(1, 3) {
            // an undefined name reachable only through an unused definition: no warning
            items.push(nt("UGHOST"));
            via_unused = true;
        }
        if !existing.is_empty() && s.chance(1, 3) {
            let pick: String = s.pick(&existing[..]).clone();
            items.push(nt(&pick));
            via_unused = true;
        }
        let body = match s.below(3) {
            0 => E::Seq(items),
            1 => E::Alt(items),
            _ => E::Opt(Box::new(E::Seq(items))),
        };
        let body = if let E::Seq(v) = &body {
            if v.len() == 1 {
                v[0].clone()
            } else {
                body
            }
        } else {
            body
        };
        let pos = s.below(g.stmts.len() + 1);
        g.stmts.insert(pos, Stmt::Def { name, shell: None, e: body });
    }
    // unused specialisations
    for k in 0..s.weighted(&[3, 2, 1]) {
        let name = format!("US{k}");
        for sh in SH {
            if s.chance(1, 2) {
                let pos = s.below(g.stmts.len() + 1);
                g.stmts.insert(pos, Stmt::Def { name: name.clone(), shell: Some(sh.to_string()), e: E::Cmd(format!("us_{name}_{sh}")) });
            }
        }
    }
    // a name used by a call variant and defined for some shells only (undefined for the others)
    if s.chance(1, 2) {
        let name = "PART".to_string();
        for sh in SH {
            if s.chance(1, 2) {
                let pos = s.below(g.stmts.len() + 1);
                g.stmts.insert(pos, Stmt::Def { name: name.clone(), shell: Some(sh.to_string()), e: E::Cmd(format!("part_{sh}")) });
            }
        }
        let used = match s.below(3) {
            0 => nt(&name),
            1 => E::Word(vec![lit("--part="), nt(&name)]),
            _ => E::Opt(Box::new(nt(&name))),
        };
        let calls: Vec<usize> = g.stmts.iter().enumerate().filter(|(_, st)| matches!(st, Stmt::Call { .. })).map(|(i, _)| i).collect();
        let ci = calls[s.below(calls.len())];
        if let Stmt::Call { e, .. } = &mut g.stmts[ci] {
            let old = e.clone();
            *e = E::Seq(vec![old, used]);
        }
    }
    // the grammar itself defines <_> (only an *undefined* <_> is exempt from warnings)
    if s.chance(1, 6) && !g.defs().any(|(n, _, _)| n == "_") {
        let pos = s.below(g.stmts.len() + 1);
        if s.bool() {
            g.stmts.insert(pos, Stmt::Def { name: "_".into(), shell: None, e: lit("underscore") });
        } else {
            let sh = *s.pick(&SH);
            g.stmts.insert(pos, Stmt::Def { name: "_".into(), shell: Some(sh.to_string()), e: E::Cmd(format!("underscore_{sh}")) });
        }
    }
    // a built-in name specialised for some shells only: the others keep the built-in meaning (no warning)
    if s.chance(1, 3) {
        let name = s.pick(&["PATH", "DIRECTORY"]).to_string();
        let mut any = false;
        for sh in SH {
            if s.chance(1, 3) {
                any = true;
                let pos = s.below(g.stmts.len() + 1);
                g.stmts.insert(pos, Stmt::Def { name: name.clone(), shell: Some(sh.to_string()), e: E::Cmd(format!("files_{sh}")) });
            }
        }
        if any && s.chance(3, 4) {
            let used = if s.bool() { nt(&name) } else { E::Word(vec![lit("--file="), nt(&name)]) };
            let calls: Vec<usize> = g.stmts.iter().enumerate().filter(|(_, st)| matches!(st, Stmt::Call { .. })).map(|(i, _)| i).collect();
            let ci = calls[s.below(calls.len())];
            if let Stmt::Call { e, .. } = &mut g.stmts[ci] {
                let old = e.clone();
                *e = E::Seq(vec![old, used]);
            }
        }
    }
    // a plain definition next to a specialisation of a name the call variants use (the plain one is not unused)
    if s.chance(1, 3) {
        let name = "BOTH".to_string();
        let sh = *s.pick(&SH);
        let p1 = s.below(g.stmts.len() + 1);
        g.stmts.insert(p1, Stmt::Def { name: name.clone(), shell: Some(sh.to_string()), e: E::Cmd(format!("both_{sh}")) });
        let p2 = s.below(g.stmts.len() + 1);
        g.stmts.insert(p2, Stmt::Def { name: name.clone(), shell: None, e: E::Cmd("both_plain".into()) });
        let calls: Vec<usize> = g.stmts.iter().enumerate().filter(|(_, st)| matches!(st, Stmt::Call { .. })).map(|(i, _)| i).collect();
        let ci = calls[s.below(calls.len())];
        if let Stmt::Call { e, .. } = &mut g.stmts[ci] {
            let old = e.clone();
            *e = E::Alt(vec![old, nt(&name)]);
        }
    }
    (g, via_unused)
}

pub struct Positions {
    /// (line, byte col, char col) -> what is there
    pub refs: BTreeMap<(usize, usize), String>,
    pub plain_lhs: BTreeMap<(usize, usize), String>,
    pub spec_lhs: BTreeMap<(usize, usize), (String, String)>,
    pub refs_c: BTreeMap<(usize, usize), String>,
    pub plain_lhs_c: BTreeMap<(usize, usize), String>,
    pub spec_lhs_c: BTreeMap<(usize, usize), (String, String)>,
}

pub fn positions(p: &Printed) -> Positions {
    let mut r = Positions { refs: BTreeMap::new(), plain_lhs: BTreeMap::new(), spec_lhs: BTreeMap::new(), refs_c: BTreeMap::new(), plain_lhs_c: BTreeMap::new(), spec_lhs_c: BTreeMap::new() };
    for m in &p.marks {
        let (l, cb, cc) = p.linecol(m.off);
        match &m.kind {
            MarkKind::NtRef(n) => {
                r.refs.insert((l, cb), n.clone());
                r.refs_c.insert((l, cc), n.clone());
            }
            MarkKind::DefLhs { name, shell: None } => {
                r.plain_lhs.insert((l, cb), name.clone());
                r.plain_lhs_c.insert((l, cc), name.clone());
            }
            MarkKind::DefLhs { name, shell: Some(s) } => {
                r.spec_lhs.insert((l, cb), (name.clone(), s.clone()));
                r.spec_lhs_c.insert((l, cc), (name.clone(), s.clone()));
            }
            _ => {}
        }
    }
    r
}

fn src_line(text: &str, line: usize) -> String {
    text.lines().nth(line - 1).unwrap_or("").to_string()
}

/// library view: the three warning maps of ValidGrammar, as (name -> (line, col))
fn lib_warnings(text: &str, shell: &str) -> Option<[BTreeMap<String, (usize, usize)>; 3]> {
    let t = text.to_string();
    let sh = shell.to_string();
    let r = std::panic::catch_unwind(move || {
        let g = complgen::parse::Grammar::parse(&t).ok()?;
        let v = complgen::check::ValidGrammar::from_grammar(g, obs::shell_of(&sh)).ok()?;
        let conv = |m: &ustr::UstrMap<complgen::parse::HumanSpan>| -> BTreeMap<String, (usize, usize)> { m.iter().map(|(k, sp)| (k.to_string(), (sp.line, sp.column_start))).collect() };
        let mut und = conv(&v.undefined_nonterminals);
        und.remove("_");
        Some([und, conv(&v.unused_nonterminals), conv(&v.unused_specializations)])
    });
    r.ok().flatten()
}

fn case(bytes: &[u8], with_bin: bool) -> Outcome {
    let n = bytes.len();
    let (ga, rest) = bytes.split_at(n / 2);
    let (xb, lb) = rest.split_at(rest.len() / 2);
    let mut s = Src::new(ga);
    let mut prof = Profile::general();
    // literals that need backslash escapes: locations after them must still be right
    prof.special_lits = true;
    let (base, _) = gen_clean(&mut s, &prof);
    let (g, via_unused) = inject_extras(&mut Src::new(xb), &base);
    let mut st = Style::random(lb);
    let printed = print_grammar(&g, &mut st, None);
    judge(&g, &printed, via_unused, with_bin, bytes.first().copied().unwrap_or(0))
}

fn judge(g: &G, printed: &Printed, via_unused: bool, with_bin: bool, salt: u8) -> Outcome {
    let text = &printed.text;
    let pos = positions(printed);
    let reduced = without_unreferenced(g);
    let reduced_text = print_minimal(&reduced);
    let full_min_text = print_minimal(g);
    let mut c = Case::new(format!("{:?}", g));
    c.evals = 0;
    let mut kinds_total = 0;
    for shell in obs::SHELLS {
        let Some(want) = expected_warnings(g, shell) else { return Outcome::Skip("model cannot elaborate".into()) };
        let detail = || json!({"text": text, "g": g.to_json(), "shell": shell, "expected": {"undefined": want.undefined, "unused": want.unused, "unused_specialization": want.unused_spec}});
        // accepted at all?
        let t2 = text.clone();
        let accepted = std::panic::catch_unwind(move || obs::compile(&t2, shell).is_ok()).unwrap_or(false);
        if !accepted {
            // "warnings never change the exit status": the statements nothing refers to can only add warnings,
            // so a grammar that is accepted without them is accepted with them
            let t3 = reduced_text.clone();
            let reduced_ok = reduced_text != full_min_text && std::panic::catch_unwind(move || obs::compile(&t3, shell).is_ok()).unwrap_or(false);
            if reduced_ok {
                return Outcome::Fail(Failure::new(
                    format!("the grammar is rejected for {shell}, but it is accepted once the definitions nothing refers to (which only deserve a warning) are removed"),
                    detail(),
                ));
            }
            c.exclude("rejected by the pipeline (C08's business)", 1);
            continue;
        }
        let Some(got) = lib_warnings(text, shell) else { return Outcome::Broken("validated grammar not reproducible".into()) };
        c.evals += 1;
        let sets = [("Undefined", &want.undefined, &got[0]), ("Unused", &want.unused, &got[1]), ("Unused specialization", &want.unused_spec, &got[2])];
        for (label, w, gmap) in sets {
            let gnames: BTreeSet<String> = gmap.keys().cloned().collect();
            if &gnames != w {
                let missing: Vec<&String> = w.difference(&gnames).collect();
                let extra: Vec<&String> = gnames.difference(w).collect();
                return Outcome::Fail(Failure::new(
                    format!("'{label}' warnings for {shell}: missing {:?}, unexpected {:?}", missing, extra),
                    detail(),
                ));
            }
            for (name, (l, col)) in gmap {
                let ok = match label {
                    "Undefined" => pos.refs.get(&(*l, *col)) == Some(name) || pos.refs_c.get(&(*l, *col)) == Some(name),
                    "Unused" => pos.plain_lhs.get(&(*l, *col)) == Some(name) || pos.plain_lhs_c.get(&(*l, *col)) == Some(name),
                    _ => {
                        let want_v = (name.clone(), shell.to_string());
                        pos.spec_lhs.get(&(*l, *col)) == Some(&want_v) || pos.spec_lhs_c.get(&(*l, *col)) == Some(&want_v)
                    }
                };
                if !ok {
                    return Outcome::Fail(Failure::new(
                        format!("'{label}' warning about <{name}> for {shell} is located at {l}:{col}, where that name does not occur in that role"),
                        detail(),
                    ));
                }
            }
        }
        // harmless: the script equals the script of the grammar without the unreferenced definitions
        let (a, b) = (full_min_text.clone(), reduced_text.clone());
        let pair = std::panic::catch_unwind(move || (obs::compile(&a, shell).ok().and_then(|c| obs::emit(&c, shell).ok()), obs::compile(&b, shell).ok().and_then(|c| obs::emit(&c, shell).ok())));
        if let Ok((Some(x), Some(y))) = pair {
            c.evals += 1;
            if x != y {
                return Outcome::Fail(Failure::new(format!("removing the definitions nobody refers to changes the {shell} script"), detail()));
            }
        } else {
            return Outcome::Fail(Failure::new(format!("the grammar is accepted for {shell} but not without its unreferenced definitions (or vice versa)"), detail()));
        }
        let kinds = [!want.undefined.is_empty(), !want.unused.is_empty(), !want.unused_spec.is_empty()].iter().filter(|x| **x).count();
        kinds_total = kinds_total.max(kinds);
        let total = want.undefined.len() + want.unused.len() + want.unused_spec.len();
        if (total >= 2 && kinds >= 2) || via_unused {
            c.extra_keys.push(format!("{shell}|{:?}", g));
        }
    }
    if with_bin {
        let shell = obs::SHELLS[(salt % 4) as usize];
        let Some(want) = expected_warnings(g, shell) else { return Outcome::Skip("model".into()) };
        let detail = || json!({"text": text, "g": g.to_json(), "shell": shell, "binary": true});
        let sc = Scratch::new();
        let inp = sc.path("w.usage");
        if std::fs::write(&inp, text).is_err() {
            return Outcome::Broken("cannot write scratch".into());
        }
        let path = inp.to_string_lossy().to_string();
        let out = match complgen(&[format!("--{shell}"), "-".into(), path.clone()], None, &[], None) {
            Ok(o) => o,
            Err(e) => return Outcome::Broken(format!("cannot run binary: {e}")),
        };
        if out.timed_out {
            return Outcome::Broken("timeout".into());
        }
        let t2 = text.clone();
        let accepted = std::panic::catch_unwind(move || obs::compile(&t2, shell).is_ok()).unwrap_or(false);
        if accepted {
            c.evals += 1;
            c.class("binary_run");
            if out.status != Some(0) {
                return Outcome::Fail(Failure::new(format!("complgen --{shell} exits with {:?} on an accepted grammar with warnings: {}", out.status, out.stderr_s()), detail()));
            }
            let err = out.stderr_s();
            let diags = diag::parse_stderr(&err, &path);
            let mut seen: [BTreeSet<String>; 3] = [BTreeSet::new(), BTreeSet::new(), BTreeSet::new()];
            for d in &diags {
                if d.kind != "warning" {
                    return Outcome::Fail(Failure::new(format!("unexpected diagnostic on an accepted grammar: {:?}", d), detail()));
                }
                let (idx, name) = match d.label.as_str() {
                    "Undefined" => (0, pos.refs.get(&(d.line, d.col)).or(pos.refs_c.get(&(d.line, d.col))).cloned()),
                    "Unused" => (1, pos.plain_lhs.get(&(d.line, d.col)).or(pos.plain_lhs_c.get(&(d.line, d.col))).cloned()),
                    "Unused specialization" => (2, pos.spec_lhs.get(&(d.line, d.col)).or(pos.spec_lhs_c.get(&(d.line, d.col))).filter(|(_, sh)| sh == shell).map(|(n, _)| n.clone())),
                    other => return Outcome::Fail(Failure::new(format!("a warning of an unknown kind: {other:?}"), detail())),
                };
                let Some(name) = name else {
                    return Outcome::Fail(Failure::new(format!("warning '{}' at {}:{} does not point at a name in that role", d.label, d.line, d.col), detail()));
                };
                if !seen[idx].insert(name.clone()) {
                    return Outcome::Fail(Failure::new(format!("warning '{}' about <{name}> is printed more than once", d.label), detail()));
                }
                match &d.snippet {
                    Some((n, shown)) if *n == d.line && crate::diag::shows_line(shown, &src_line(text, d.line)) => {}
                    other => return Outcome::Fail(Failure::new(format!("warning '{}' at {}:{} does not show source line {}: {:?}", d.label, d.line, d.col, d.line, other), detail())),
                }
            }
            // every non-located line on stderr must belong to a snippet: count "warning" occurrences
            let nwarn = err.matches("warning").count();
            if nwarn != diags.len() {
                return Outcome::Fail(Failure::new(format!("stderr mentions 'warning' {nwarn} times but only {} located warnings were read: {err}", diags.len()), detail()));
            }
            if seen[0] != want.undefined || seen[1] != want.unused || seen[2] != want.unused_spec {
                return Outcome::Fail(Failure::new(
                    format!("complgen --{shell} warned about undefined {:?}, unused {:?}, unused specialisations {:?}; expected {:?}, {:?}, {:?}", seen[0], seen[1], seen[2], want.undefined, want.unused, want.unused_spec),
                    detail(),
                ));
            }
            // harmless through the binary: stdout equals stdout of the reduced grammar
            let inp2 = sc.path("r.usage");
            let _ = std::fs::write(&inp2, print_grammar(&reduced, &mut Style::minimal(), None).text);
            // same layout is not required (C14), but keep the comparison independent of it: compare with the
            // reduced grammar printed minimally against the full grammar printed minimally
            let inp3 = sc.path("f.usage");
            let _ = std::fs::write(&inp3, &full_min_text);
            let r2 = complgen(&[format!("--{shell}"), "-".into(), inp2.to_string_lossy().to_string()], None, &[], None);
            let r3 = complgen(&[format!("--{shell}"), "-".into(), inp3.to_string_lossy().to_string()], None, &[], None);
            if let (Ok(r2), Ok(r3)) = (r2, r3) {
                c.evals += 1;
                if r2.status != Some(0) || r3.status != Some(0) || r2.stdout != r3.stdout {
                    return Outcome::Fail(Failure::new(format!("complgen --{shell}: removing the unreferenced definitions changes the result (status {:?} vs {:?})", r3.status, r2.status), detail()));
                }
            }
        }
    }
    if c.evals == 0 {
        return Outcome::Skip("rejected for all shells".into());
    }
    if via_unused {
        c.class("name_used_only_through_unused_definition");
    }
    c.class(format!("warning_kinds:{kinds_total}"));
    c.sample = Some(json!({"text": text}));
    Outcome::Pass(c)
}

fn case_regress(doc: &serde_json::Value) -> Outcome {
    let Some(g) = super::common::grammar_from_doc(doc) else { return Outcome::Broken("bad regress file".into()) };
    let printed = print_grammar(&g, &mut Style::minimal(), None);
    judge(&g, &printed, true, true, 0)
}

pub fn run(tier: Tier, seed: u64) -> i32 {
    let mut run = Run::new(
        "C15",
        tier,
        seed,
        "exploration",
        "clean grammars (definitions, specialisations, words, undefined names, <_>, PATH/DIRECTORY) plus injected bookkeeping stress: chains of unused definitions, names referred to only by unused definitions, unused specialisations for target and other shells, a used name defined for some shells only, a used name with both a plain and a specialised definition; random layout x 4 shells. Set oracle from the statement: Undefined = names reachable from the call variants through the definitions selected for the target with nothing defining them (minus _, PATH, DIRECTORY); Unused = plain definitions whose name no statement refers to; Unused specialization = @target definitions whose name no statement refers to. Library part: the three maps of the validated grammar must equal these sets and point at an occurrence of the name in the right role (printer marks; byte or char column). Binary part: stderr is parsed (exactly one located warning per expected element, nothing else, snippet = source line), exit status 0, and stdout equals stdout of the grammar without the unreferenced definitions. Non-trivial: >=2 expected warnings of >=2 kinds, or a name used only through an unused definition; distinct by (shell, grammar).",
    );
    run.enumerate("regress", load_regress("C15"), false, case_regress);
    run.shards = 3;
    run.shrink_iters = 200;
    if !run.failed() {
        run.random("binary", tier.pick(100, 6_000), 900, |b| case(b, true));
    }
    run.shards = nshards();
    run.shrink_iters = 3000;
    if !run.failed() {
        run.random("library", tier.pick(60_000, 2_000_000), 900, |b| case(b, false));
    }
    let code = run.finish();
    cleanup_scratch();
    code
}

pub fn replay(doc: &serde_json::Value) -> i32 {
    let d = if doc.get("detail").is_some() { &doc["detail"] } else { doc };
    let r = case_regress(d);
    cleanup_scratch();
    match r {
        Outcome::Fail(f) => {
            println!("VIOLATION property=C15 replay=(given) {}", f.msg);
            1
        }
        Outcome::Broken(_) => 2,
        _ => 0,
    }
}
