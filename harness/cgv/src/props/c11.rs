//! C11 — the definition chosen for a nonterminal is the one for the target shell.

use super::c02;
use super::common::*;
use crate::ast::*;
use crate::bashdrv;
use crate::engine::*;
use crate::gen_clean::Profile;
use crate::model::*;
use crate::obs;
use crate::print::*;
use crate::readers::read_cmd_functions;
use serde_json::json;
use std::collections::BTreeSet;

const WHICH: [&str; 5] = ["plain", "bash", "fish", "zsh", "pwsh"];
const NAMES: [&str; 3] = ["X", "PATH", "DIRECTORY"];
const NPOS: usize = 9;

#[derive(Clone, Debug)]
pub struct Item {
    pub mask: u32,
    pub name: &'static str,
    pub pos: usize,
    pub shell: &'static str,
    pub defs_first: bool,
}

fn marker(name: &str, which: &str) -> String {
    format!("echo def_{name}_{which}")
}

/// what `<name>` stands for when compiling for `shell`
#[derive(Clone, Debug, PartialEq, Eq)]
pub enum Choice {
    User(String),
    Builtin(&'static str),
    Any,
}

pub fn expected_choice(mask: u32, name: &'static str, shell: &str) -> Choice {
    let si = WHICH.iter().position(|w| *w == shell).unwrap();
    if mask & (1 << si) != 0 {
        Choice::User(marker(name, shell))
    } else if mask & 1 != 0 {
        Choice::User(marker(name, "plain"))
    } else if name == "PATH" || name == "DIRECTORY" {
        Choice::Builtin(if name == "PATH" { "PATH" } else { "DIRECTORY" })
    } else {
        Choice::Any
    }
}

struct Placed {
    g: G,
    /// complete words leading to the reference, typed prefix at the reference (bash execution)
    words: Vec<String>,
    cur: String,
    /// text the candidate is prefixed with inside a word
    cand_prefix: String,
}

fn place(mask: u32, name: &str, pos: usize, defs_first: bool) -> Placed {
    let r = nt(name);
    let mut extra: Vec<Stmt> = vec![];
    let def = |n: &str, e: E| Stmt::Def { name: n.to_string(), shell: None, e };
    let (e, words, cur, cand_prefix): (E, Vec<&str>, &str, &str) = match pos {
        0 => (r, vec![], "", ""),
        1 => (E::Word(vec![lit("--p="), r]), vec![], "--p=", "--p="),
        2 => {
            extra.push(def("A", E::Seq(vec![lit("x"), r])));
            (nt("A"), vec!["x"], "", "")
        }
        3 => {
            extra.push(def("A", E::Seq(vec![E::Opt(Box::new(nt("B"))), lit("y")])));
            extra.push(def("B", E::Alt(vec![r, lit("z")])));
            (nt("A"), vec![], "d", "")
        }
        4 => (E::Seq(vec![E::Opt(Box::new(r)), lit("tail")]), vec![], "d", ""),
        5 => (E::Many(Box::new(r)), vec![], "", ""),
        6 => (E::Fb(vec![lit("foo"), r]), vec![], "d", ""),
        7 => {
            extra.push(def("W", r));
            (E::Word(vec![lit("--q="), nt("W")]), vec![], "--q=", "--q=")
        }
        _ => (E::Seq(vec![r.clone(), E::Word(vec![lit("--p="), r])]), vec![], "", ""),
    };
    let mut defs: Vec<Stmt> = vec![];
    for (i, w) in WHICH.iter().enumerate() {
        if mask & (1 << i) != 0 {
            defs.push(Stmt::Def { name: name.to_string(), shell: if i == 0 { None } else { Some(w.to_string()) }, e: E::Cmd(marker(name, w)) });
        }
    }
    let call = Stmt::Call { name: "cmd".into(), e };
    let mut stmts = vec![];
    if defs_first {
        // specialisations in reverse order, then helper definitions, then the call
        defs.reverse();
        stmts.extend(defs);
        stmts.extend(extra);
        stmts.push(call);
    } else {
        stmts.push(call);
        stmts.extend(extra);
        stmts.extend(defs);
    }
    Placed { g: G { stmts }, words: words.into_iter().map(|s| s.to_string()).collect(), cur: cur.to_string(), cand_prefix: cand_prefix.to_string() }
}

/// command texts the script's command functions hold, built-ins replaced by their marker
fn script_commands(shell: &str, script: &str) -> Result<BTreeSet<String>, String> {
    let fns = read_cmd_functions(shell, "cmd", script)?;
    let mut out = BTreeSet::new();
    for (_, body) in fns {
        let t = body.trim().to_string();
        out.insert(match classify_builtin(shell, &t) {
            Some(b) => builtin_marker(b),
            None => t,
        });
    }
    Ok(out)
}

fn compile_emit(text: &str, shell: &str) -> Result<String, String> {
    let t = text.to_string();
    let sh = shell.to_string();
    match std::panic::catch_unwind(move || obs::compile(&t, &sh).map_err(|(st, k)| format!("{st}: {k}")).and_then(|c| obs::emit(&c, &sh))) {
        Ok(r) => r,
        Err(_) => Err("panic".into()),
    }
}

fn case_item(it: &Item) -> Outcome {
    let pl = place(it.mask, it.name, it.pos, it.defs_first);
    let text = print_minimal(&pl.g);
    let want = expected_choice(it.mask, it.name, it.shell);
    let detail = || json!({"text": text, "g": pl.g.to_json(), "shell": it.shell, "name": it.name, "mask": it.mask, "pos": it.pos, "expected": format!("{:?}", want)});
    let mut c = Case::new(format!("{:?}", it));
    c.evals = 0;
    // (a) automaton: language equivalence with the reference semantics (which implements the rule)
    match c02::judge(&pl.g, &text, it.shell) {
        Err(f) => return Outcome::Fail(Failure::new(format!("automaton: {}", f.msg), detail())),
        Ok(None) => return Outcome::Fail(Failure::new(format!("grammar with only command definitions of <{}> was rejected for {}", it.name, it.shell), detail())),
        Ok(Some(_)) => c.evals += 1,
    }
    // (b) script: the command functions hold exactly the selected command
    let script = match compile_emit(&text, it.shell) {
        Ok(s) => s,
        Err(e) => return Outcome::Fail(Failure::new(format!("could not emit the {} script: {e}", it.shell), detail())),
    };
    let got = match script_commands(it.shell, &script) {
        Ok(s) => s,
        Err(e) => return Outcome::Broken(format!("cannot read command functions of the {} script: {e}", it.shell)),
    };
    let want_set: BTreeSet<String> = match &want {
        Choice::User(t) => BTreeSet::from([t.clone()]),
        Choice::Builtin(b) => BTreeSet::from([builtin_marker(b)]),
        Choice::Any => BTreeSet::new(),
    };
    c.evals += 1;
    if got != want_set {
        return Outcome::Fail(Failure::new(
            format!("{} script for <{}> defined by {:?}: command functions hold {:?}, expected {:?}", it.shell, it.name, which_list(it.mask), got, want_set),
            detail(),
        ));
    }
    for w in WHICH {
        let m = format!("def_{}_{}", it.name, w);
        let selected = matches!(&want, Choice::User(t) if t.ends_with(&m));
        if !selected && script.contains(&m) {
            return Outcome::Fail(Failure::new(format!("{} script mentions the non-selected definition {m}", it.shell), detail()));
        }
    }
    // (c) definitions for other shells never influence the result
    let si = WHICH.iter().position(|w| *w == it.shell).unwrap();
    let reduced = it.mask & (1 | (1 << si));
    if reduced != it.mask {
        let pl2 = place(reduced, it.name, it.pos, it.defs_first);
        let text2 = print_minimal(&pl2.g);
        c.evals += 1;
        match compile_emit(&text2, it.shell) {
            Ok(s2) => {
                if strip_sig(&s2) != strip_sig(&script) {
                    return Outcome::Fail(Failure::new(format!("removing the definitions for other shells changes the {} script", it.shell), detail()));
                }
            }
            Err(e) => return Outcome::Fail(Failure::new(format!("reduced grammar rejected: {e}"), detail())),
        }
    }
    let ndefs = it.mask.count_ones();
    if ndefs >= 2 || (it.name != "X" && it.mask & 1 != 0) {
        c.nontrivial = true;
    }
    c.class(format!("choice:{}", match want { Choice::User(_) => "user", Choice::Builtin(_) => "builtin", Choice::Any => "any" }));
    if it.mask == 21 && it.pos == 1 {
        c.sample = Some(json!({"text": text, "shell": it.shell, "expected": format!("{:?}", want)}));
    }
    Outcome::Pass(c)
}

fn which_list(mask: u32) -> Vec<&'static str> {
    WHICH.iter().enumerate().filter(|(i, _)| mask & (1 << i) != 0).map(|(_, w)| *w).collect()
}

/// bash execution: "the chosen command text is what the emitted script runs"
fn case_exec(it: &Item) -> Outcome {
    let pl = place(it.mask, it.name, it.pos, it.defs_first);
    let text = print_minimal(&pl.g);
    let want = expected_choice(it.mask, it.name, "bash");
    let Choice::User(cmdtext) = &want else { return Outcome::Skip("no user command expected".into()) };
    let out = cmdtext.trim_start_matches("echo ").to_string();
    let detail = || json!({"text": text, "g": pl.g.to_json(), "shell": "bash", "name": it.name, "mask": it.mask, "pos": it.pos, "exec": true});
    let sc = crate::bin::Scratch::new();
    let r = match crate::bin::compile_text(&text, "bash", &sc) {
        Ok(r) => r,
        Err(e) => return Outcome::Broken(format!("cannot run binary: {e}")),
    };
    if r.status != Some(0) {
        return Outcome::Fail(Failure::new(format!("complgen --bash rejected the grammar: {}", r.stderr_s()), detail()));
    }
    let script = r.stdout_s();
    let sess = bashdrv::Session { script: &script, func: "_cmd".into(), command: "cmd".into(), prelude: String::new() };
    let q = bashdrv::Query { words: pl.words.clone(), cur: pl.cur.clone(), wordbreaks: Some(String::new()) };
    let replies = match bashdrv::run(&sess, &[q.clone()]) {
        Ok(r) => r,
        Err(bashdrv::DrvError::Infra(e)) => return Outcome::Broken(e),
        Err(bashdrv::DrvError::Source(rc, e)) => return Outcome::Fail(Failure::new(format!("sourcing the script failed ({rc}): {e}"), detail())),
    };
    let rep = &replies[0];
    let wanted = format!("{}{}", pl.cand_prefix, out);
    let has = rep.compreply.iter().any(|x| x.trim_end() == wanted);
    let foreign: Vec<&String> = rep.compreply.iter().filter(|x| x.contains("def_") && x.trim_end() != wanted).collect();
    if !has || !foreign.is_empty() {
        return Outcome::Fail(Failure::new(
            format!("bash: completing {:?} + {:?} offers {:?}; expected the output of the selected definition ({wanted})", q.words, q.cur, rep.compreply),
            detail(),
        ));
    }
    let mut c = Case::new(format!("exec {:?}", it));
    c.nontrivial = it.mask.count_ones() >= 2;
    c.class("bash_execution");
    if it.mask == 3 && it.pos == 7 {
        c.sample = Some(json!({"text": text, "query": {"words": q.words, "cur": q.cur}, "compreply": rep.compreply}));
    }
    Outcome::Pass(c)
}

/// random clean grammars with several specialised names at once: the script's command functions are
/// exactly the commands the reference semantics expects somewhere in the language
fn case_random(bytes: &[u8]) -> Outcome {
    let mut p = Profile::general();
    p.w = [6, 5, 4, 3, 3, 2, 5, 4, 1, 2, 8, 1];
    let cc = clean_case(bytes, &p, false);
    judge_scripts(&cc.g, &cc.text)
}

fn judge_scripts(g: &G, text: &str) -> Outcome {
    struct CC<'a> {
        g: &'a G,
        text: &'a str,
    }
    let cc = CC { g, text };
    let mut c = Case::new("");
    c.evals = 0;
    let nspec = cc.g.defs().filter(|(_, sh, _)| sh.is_some()).count();
    for shell in obs::SHELLS {
        let Ok(built) = denote(&cc.g, shell) else { continue };
        let mut want: BTreeSet<String> = BTreeSet::new();
        let mut collect = |d: &Ldfa| {
            for row in &d.trans {
                for (s, _) in row {
                    if let Sym::Cmd { text, .. } = s {
                        let t = text.trim();
                        want.insert(if t.is_empty() {
                            match shell {
                                "bash" | "zsh" => ":".to_string(),
                                _ => "?".to_string(),
                            }
                        } else {
                            t.to_string()
                        });
                    }
                }
            }
        };
        collect(&built.dfa);
        for w in built.words.values() {
            collect(w);
        }
        let script = match compile_emit(&cc.text, shell) {
            Ok(s) => s,
            Err(_) => {
                c.exclude("rejected by the pipeline (C08's business)", 1);
                continue;
            }
        };
        let got = match script_commands(shell, &script) {
            Ok(s) => s,
            Err(e) => return Outcome::Broken(format!("cannot read command functions: {e}")),
        };
        c.evals += 1;
        // an empty command body is printed in a shell-specific way: compare the non-empty ones exactly
        let norm = |s: &BTreeSet<String>| -> BTreeSet<String> { s.iter().filter(|x| *x != "?" && *x != ":" && !x.is_empty() && !x.starts_with('#')).cloned().collect() };
        if norm(&got) != norm(&want) {
            return Outcome::Fail(Failure::new(
                format!("{shell} script: command functions hold {:?}, the grammar expects {:?}", got, want),
                json!({"text": cc.text, "g": cc.g.to_json(), "shell": shell}),
            ));
        }
        for (name, sh, e) in cc.g.defs() {
            if let (Some(sh), E::Cmd(t)) = (sh, e) {
                if sh != shell && t.starts_with("spec_") && script.contains(t.as_str()) {
                    return Outcome::Fail(Failure::new(
                        format!("{shell} script mentions the command of <{name}@{sh}>"),
                        json!({"text": cc.text, "g": cc.g.to_json(), "shell": shell}),
                    ));
                }
            }
        }
    }
    if c.evals == 0 {
        return Outcome::Skip("rejected".into());
    }
    if nspec >= 2 {
        c.nontrivial = true;
        c.key = format!("{:?}", cc.g);
        c.class("specialisations>=2");
    }
    c.sample = Some(json!({"text": cc.text}));
    Outcome::Pass(c)
}

fn case_regress(doc: &serde_json::Value) -> Outcome {
    if let Some(p) = doc.get("pair").and_then(|p| p.as_array()) {
        let nm = |v: &serde_json::Value| NAMES.iter().find(|n| Some(**n) == v.as_str()).copied().unwrap_or("X");
        return case_pair(&(nm(&p[0]), p[1].as_u64().unwrap_or(0) as u32, nm(&p[2]), p[3].as_u64().unwrap_or(0) as u32));
    }
    if doc.get("mask").is_none() {
        return match super::common::grammar_from_doc(doc) {
            Some(g) => judge_scripts(&g, &print_minimal(&g)),
            None => Outcome::Broken("bad regress file".into()),
        };
    }
    let name = NAMES.iter().find(|n| Some(**n) == doc["name"].as_str()).copied().unwrap_or("X");
    let shell = obs::SHELLS.iter().find(|s| Some(**s) == doc["shell"].as_str()).copied().unwrap_or("bash");
    let it = Item { mask: doc["mask"].as_u64().unwrap_or(0) as u32, name, pos: doc["pos"].as_u64().unwrap_or(0) as usize, shell, defs_first: true };
    if doc["exec"].as_bool().unwrap_or(false) {
        case_exec(&it)
    } else {
        case_item(&it)
    }
}

/// two names at once, each with its own subset of definitions: the choice made for one name must not
/// depend on what is defined for the other (`cmd <N1> <N2>;`)
fn pair_grammar(n1: &str, m1: u32, n2: &str, m2: u32) -> G {
    let mut stmts = vec![Stmt::Call { name: "cmd".into(), e: E::Seq(vec![nt(n1), lit("then"), nt(n2)]) }];
    for (n, m) in [(n1, m1), (n2, m2)] {
        for (i, w) in WHICH.iter().enumerate() {
            if m & (1 << i) != 0 {
                stmts.push(Stmt::Def { name: n.to_string(), shell: if i == 0 { None } else { Some(w.to_string()) }, e: E::Cmd(marker(n, w)) });
            }
        }
    }
    G { stmts }
}

fn case_pair(it: &(&'static str, u32, &'static str, u32)) -> Outcome {
    let (n1, m1, n2, m2) = *it;
    let g = pair_grammar(n1, m1, n2, m2);
    let text = print_minimal(&g);
    let detail = |shell: &str| json!({"text": text, "g": g.to_json(), "shell": shell, "pair": [n1, m1, n2, m2]});
    let mut evals = 0;
    for shell in obs::SHELLS {
        match c02::judge(&g, &text, shell) {
            Err(f) => return Outcome::Fail(Failure::new(format!("automaton ({shell}): {}", f.msg), detail(shell))),
            Ok(None) => return Outcome::Fail(Failure::new(format!("grammar with only command definitions of <{n1}> and <{n2}> was rejected for {shell}"), detail(shell))),
            Ok(Some(_)) => evals += 1,
        }
        let script = match compile_emit(&text, shell) {
            Ok(s) => s,
            Err(e) => return Outcome::Fail(Failure::new(format!("could not emit the {shell} script: {e}"), detail(shell))),
        };
        let got = match script_commands(shell, &script) {
            Ok(s) => s,
            Err(e) => return Outcome::Broken(format!("cannot read command functions of the {shell} script: {e}")),
        };
        let mut want: BTreeSet<String> = BTreeSet::new();
        for (n, m) in [(n1, m1), (n2, m2)] {
            match expected_choice(m, n, shell) {
                Choice::User(t) => {
                    want.insert(t);
                }
                Choice::Builtin(b) => {
                    want.insert(builtin_marker(b));
                }
                Choice::Any => {}
            }
        }
        evals += 1;
        if got != want {
            return Outcome::Fail(Failure::new(
                format!("{shell} script for <{n1}> defined by {:?} and <{n2}> defined by {:?}: command functions hold {:?}, expected {:?}", which_list(m1), which_list(m2), got, want),
                detail(shell),
            ));
        }
    }
    let mut c = Case::new(format!("pair {:?}", it));
    c.evals = evals;
    c.nontrivial = m1 != 0 || m2 != 0;
    c.class("two_names");
    if m1 == 1 && m2 == 0 && n1 == "PATH" && n2 == "DIRECTORY" {
        c.sample = Some(json!({"text": text}));
    }
    Outcome::Pass(c)
}

pub fn pairs() -> Vec<(&'static str, u32, &'static str, u32)> {
    let mut v = vec![];
    for n1 in NAMES {
        for n2 in NAMES {
            if n1 == n2 {
                continue;
            }
            for m1 in 0..32u32 {
                for m2 in 0..32u32 {
                    v.push((n1, m1, n2, m2));
                }
            }
        }
    }
    v
}

pub fn items() -> Vec<Item> {
    let mut v = vec![];
    for mask in 0..32u32 {
        for name in NAMES {
            for pos in 0..NPOS {
                for shell in obs::SHELLS {
                    for defs_first in [true, false] {
                        v.push(Item { mask, name, pos, shell, defs_first });
                    }
                }
            }
        }
    }
    v
}

pub fn run(tier: Tier, seed: u64) -> i32 {
    let mut run = Run::new(
        "C11",
        tier,
        seed,
        "exploration",
        "exhaustive: all 2^5 subsets of {plain, @bash, @fish, @zsh, @pwsh} command definitions (distinct marker texts) x name in {X, PATH, DIRECTORY} x 9 reference positions (top level, inside a word, through one/two definitions, under [], ..., ||, inside a word through a definition, twice) x 4 target shells x {definitions before, after the call}; and all 6 ordered pairs of two of the names x 2^5 x 2^5 subsets in `cmd <N1> then <N2>;` (the choice for one name must not depend on what is defined for the other). Oracles: (a) compiled automaton == reference semantics implementing the rule @S > plain > built-in > any-word (exact language equivalence, command texts and compadd flag as labels); (b) the command functions read from the emitted script hold exactly the selected command (built-ins recognised by the shell's documented primitive) and no marker of a non-selected definition occurs in the script; (c) metamorphic: removing all definitions for other shells leaves the script byte-identical; (d) bash target: the script is sourced in bash and the candidate offered at the reference is the selected definition's output. random: clean grammars with several specialised names. Non-trivial: >=2 definitions of the name, or a built-in name with a plain definition; distinct by (subset, name, position, shell, order).",
    );
    run.assumptions.push("fish/zsh/pwsh command functions are read from the script text, not executed (shells absent)".into());
    run.enumerate("regress", load_regress("C11"), false, case_regress);
    run.enumerate("exhaustive-definition-subsets", items(), true, case_item);
    if !run.failed() {
        run.enumerate("exhaustive-two-names", pairs(), true, case_pair);
    }
    if !run.failed() {
        // bash execution: every subset x name x position, definitions first
        let ex: Vec<Item> = items().into_iter().filter(|i| i.shell == "bash" && i.defs_first && (tier == Tier::Thorough || i.pos % 2 == 1 || i.pos == 0)).collect();
        run.shards = 4;
        run.enumerate("bash-execution", ex, true, case_exec);
        run.shards = nshards();
    }
    if !run.failed() {
        run.random("random-specialised-grammars", tier.pick(4_000, 100_000), 500, case_random);
    }
    let code = run.finish();
    crate::bin::cleanup_scratch();
    code
}

pub fn replay(doc: &serde_json::Value) -> i32 {
    let d = if doc.get("detail").is_some() { &doc["detail"] } else { doc };
    let r = if d.get("mask").is_some() || d.get("pair").is_some() {
        case_regress(d)
    } else if let Some(g) = G::from_json(&d["g"]) {
        judge_scripts(&g, &print_minimal(&g))
    } else {
        Outcome::Broken("replay of random C11 cases goes through C02's replay (grammar in detail.g)".into())
    };
    crate::bin::cleanup_scratch();
    match r {
        Outcome::Fail(f) => {
            println!("VIOLATION property=C11 replay=(given) {}", f.msg);
            1
        }
        Outcome::Broken(_) => 2,
        _ => 0,
    }
}
