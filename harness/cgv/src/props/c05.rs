//! C05 — print/parse round trip.

use crate::ast::*;
use crate::engine::*;
use crate::gen_any::*;
use crate::obs;
use crate::print::*;
use crate::src::Src;
use serde_json::json;

fn expected(g: &G) -> G {
    G {
        stmts: g
            .stmts
            .iter()
            .map(|s| match s {
                Stmt::Call { name, e } => Stmt::Call { name: name.clone(), e: expected_parse_tree(e) },
                Stmt::Def { name, shell, e } => Stmt::Def { name: name.clone(), shell: shell.clone(), e: expected_parse_tree(e) },
            })
            .collect(),
    }
}

fn needs_escape(g: &G) -> bool {
    let mut r = false;
    for e in g.exprs() {
        e.walk(&mut |x| match x {
            E::Lit { text, descr } => {
                if text.chars().any(|c| "()[]<>|;\"{}\\.".contains(c)) {
                    r = true;
                }
                if let Some(d) = descr {
                    if d.contains('"') || d.contains('\\') {
                        r = true;
                    }
                }
            }
            E::Descr(_, d) => {
                if d.contains('"') || d.contains('\\') {
                    r = true;
                }
            }
            _ => {}
        });
    }
    r
}

pub fn judge(g: &G, text: &str) -> Result<(), Failure> {
    let parsed = std::panic::catch_unwind(|| complgen::parse::Grammar::parse(text));
    let parsed = match parsed {
        Ok(p) => p,
        Err(_) => return Err(Failure::new("parser panicked", json!({"text": text}))),
    };
    match parsed {
        Err(e) => Err(Failure::new(
            format!("printed grammar does not parse: {:?}", e),
            json!({"text": text, "tree": format!("{:?}", g)}),
        )),
        Ok(pg) => {
            let got = obs::grammar_to_ast(&pg);
            let want = expected(g);
            if got != want {
                Err(Failure::new(
                    "parsed tree differs from the printed tree",
                    json!({"text": text, "want": format!("{:?}", want), "got": format!("{:?}", got)}),
                ))
            } else {
                Ok(())
            }
        }
    }
}

fn case_random(bytes: &[u8]) -> Outcome {
    let cut = bytes.len() * 2 / 3;
    let (a, b) = bytes.split_at(cut);
    let mut s = Src::new(a);
    let g = gen_any_grammar(&mut s, 5, 60);
    let mut st = Style::random(b);
    st.allow_descr_continuation = true;
    st.allow_redundant_parens = false;
    let p = print_grammar(&g, &mut st, None);
    if let Err(f) = judge(&g, &p.text) {
        return Outcome::Fail(f);
    }
    // metamorphic half: the minimal layout of the same tree must give the same tree
    let m = print_minimal(&g);
    if let Err(mut f) = judge(&g, &m) {
        f.msg = format!("(minimal layout) {}", f.msg);
        return Outcome::Fail(f);
    }
    let mut ops = std::collections::BTreeSet::new();
    for e in g.exprs() {
        ops.extend(e.op_kinds());
    }
    let esc = needs_escape(&g);
    let mut c = Case::new(format!("{:?}", g));
    c.nontrivial = ops.len() >= 2 || esc;
    c.evals = 2;
    if esc {
        c.class("needs_escape");
    }
    if ops.len() >= 2 {
        c.class("two_or_more_operator_kinds");
    }
    for o in &ops {
        c.class(format!("op:{o}"));
    }
    if p.layout_choices >= 3 {
        c.class("layout_choices>=3");
    }
    if g.stmts.len() > 1 {
        c.class("multi_statement");
    }
    c.sample = Some(json!({"text": p.text}));
    Outcome::Pass(c)
}

fn case_tree(e: &E) -> Outcome {
    for g in [
        G { stmts: vec![Stmt::Call { name: "cmd".into(), e: e.clone() }] },
        G { stmts: vec![Stmt::Def { name: "D".into(), shell: None, e: e.clone() }] },
    ] {
        let t = print_minimal(&g);
        if let Err(f) = judge(&g, &t) {
            return Outcome::Fail(f);
        }
    }
    let mut c = Case::new(format!("{:?}", e));
    c.nontrivial = e.op_kinds().len() >= 2;
    c.evals = 2;
    if e.size() >= 4 {
        c.sample = Some(json!({"text": print_expr_minimal(e)}));
    }
    Outcome::Pass(c)
}

pub fn leaves() -> Vec<E> {
    vec![lit("a"), litd("b", "d"), nt("N"), cmd("c")]
}

pub fn run(tier: Tier, seed: u64) -> i32 {
    let mut run = Run::new(
        "C05",
        tier,
        seed,
        "exploration",
        "random: grammar trees (1-4 statements, depth<=5, <=60 nodes, literals over the full permitted character set incl. escapes and dot runs, descriptions over printable/non-ASCII/quote/backslash/newline) decoded from a byte stream, printed with random layout and again with minimal layout; exhaustive: every expression tree with <=N nodes over {a, b \"d\", <N>, {{{c}}}} and all operators, as call variant and as definition. Oracle: Grammar::parse(print(T)) == T node for node (nested words flattened per syntax). Non-trivial: >=2 operator kinds or a literal/description needing an escape; distinct by tree.",
    );
    run.assumptions.push("the printer (DESIGN.md Appendix A) is the trusted base; it is exercised by this very check".into());
    let maxn = tier.pick(5, 6);
    for n in 1..=maxn {
        let trees = enum_trees(n, &leaves());
        run.enumerate(&format!("exhaustive-trees-{n}"), trees, true, case_tree);
        if run.failed() {
            return run.finish();
        }
    }
    run.random("random", tier.pick(2_000_000, 60_000_000), 400, case_random);
    if tier == Tier::Thorough && !run.failed() {
        run.fuzz("libfuzzer", 1_500_000, 8, 600, fuzz_case);
    }
    run.finish()
}

pub fn replay(doc: &serde_json::Value) -> i32 {
    let text = doc["detail"]["text"].as_str().unwrap_or("");
    if let Some(h) = doc["bytes_hex"].as_str() {
        let bytes = unhex(h);
        return match case_random(&bytes) {
            Outcome::Fail(f) => {
                println!("VIOLATION property=C05 replay=(given) {}", f.msg);
                1
            }
            _ => 0,
        };
    }
    println!("replay text:\n{text}");
    match complgen::parse::Grammar::parse(text) {
        Ok(g) => {
            println!("{:?}", obs::grammar_to_ast(&g));
            0
        }
        Err(e) => {
            println!("parse error {e:?}");
            1
        }
    }
}

/// entry point of the libFuzzer target
pub fn fuzz_case(data: &[u8]) -> Outcome {
    case_random(data)
}
