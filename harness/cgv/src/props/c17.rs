//! C17 — external commands run only when expected, with the documented arguments/output.

use super::c01::{cmd_outputs, compile_bash, gen_queries, GenQuery};
use crate::ast::*;
use crate::bashdrv::{self, Query, DEFAULT_WORDBREAKS};
use crate::bin::*;
use crate::engine::*;
use crate::gen_clean::{gen_clean, probe_cmd_pool, probe_text, Profile, Vocab};
use crate::interp::{self, CmdOut, Expect};
use crate::model::{self, Built, Sym};
use crate::print::*;
use crate::src::Src;
use serde_json::json;
use std::collections::{BTreeMap, BTreeSet};

pub fn profile() -> Profile {
    let mut p = Profile::general();
    p.exec_cmds = true;
    p.probe_cmds = true;
    p.prefix_free_words = true;
    p.unique_points = true;
    p.max_nodes = 30;
    p.builtins = false;
    // commands everywhere: top level, inside words, under [], ..., |, ||, through definitions
    p.w = [4, 6, 5, 5, 4, 3, 7, 4, 1, 9, 2, 0];
    p
}

fn prelude() -> String {
    let mut s = String::new();
    for (k, c) in probe_cmd_pool().iter().enumerate() {
        let mut out = String::new();
        for (cand, d) in &c.lines {
            out.push_str(cand);
            if let Some(d) = d {
                out.push('\t');
                out.push_str(d);
            }
            out.push('\n');
        }
        s.push_str(&format!("__cgv_out_{k}={}\n", bashdrv::sh_quote(&out)));
    }
    s
}

fn probe_id(text: &str) -> Option<String> {
    let rest = text.strip_prefix("__cgv_probe ")?;
    Some(rest.split(' ').next()?.to_string())
}

type Call = (String, String, String);

/// (allowed invocations, invocations that must happen) for a command line
fn expected_calls(b: &Built, cmds: &CmdOut, q: &GenQuery) -> Option<(BTreeSet<Call>, BTreeSet<Call>)> {
    let w = interp::walk(b, cmds, &q.words);
    if w.ambiguous.is_some() {
        return None;
    }
    let mut allowed: BTreeSet<Call> = BTreeSet::new();
    let mut must: BTreeSet<Call> = BTreeSet::new();
    let add_word_calls = |set: &mut BTreeSet<Call>, st: usize, word: &str| {
        for (sym, _) in &b.dfa.trans[st] {
            if let Sym::Word { canon, .. } = sym {
                if let Some(sub) = b.words.get(canon) {
                    for (text, rest, matched, _) in interp::word_command_calls(sub, cmds, word) {
                        if let Some(k) = probe_id(&text) {
                            set.insert((k, rest, matched));
                        }
                    }
                }
            }
        }
    };
    for (i, st) in w.trail.iter().enumerate() {
        for (sym, _) in &b.dfa.trans[*st] {
            if let Sym::Cmd { text, .. } = sym {
                if let Some(k) = probe_id(text) {
                    allowed.insert((k, String::new(), String::new()));
                }
            }
        }
        add_word_calls(&mut allowed, *st, &q.words[i]);
    }
    if let Some(st) = w.state {
        let by = interp::candidates_by_level(b, cmds, st, &q.cur);
        let win = by.keys().next().copied();
        for (sym, _) in &b.dfa.trans[st] {
            match sym {
                Sym::Cmd { text, level, .. } => {
                    if let Some(k) = probe_id(text) {
                        let call = (k, q.cur.clone(), String::new());
                        allowed.insert(call.clone());
                        if win.map(|wl| *level <= wl).unwrap_or(true) {
                            must.insert(call);
                        }
                    }
                }
                Sym::Word { canon, level } => {
                    if let Some(sub) = b.words.get(canon) {
                        let calls = interp::word_command_calls(sub, cmds, &q.cur);
                        // the position the typed text leads to (the longest matched part); commands there
                        // at a within-word level up to the winning one must be consulted
                        let max_matched = Some(interp::max_matched_len(sub, cmds, &q.cur));
                        let conts = interp::word_continuations(sub, cmds, &q.cur);
                        let subwin = conts.iter().map(|(l, _)| *l).min();
                        for (text, rest, matched, l) in calls {
                            if let Some(k) = probe_id(&text) {
                                let call = (k, rest, matched.clone());
                                allowed.insert(call.clone());
                                let unique_pos = interp::word_command_calls(sub, cmds, &q.cur).iter().map(|(_, _, m, _)| m.len()).collect::<BTreeSet<_>>().len() == 1;
                                if win.map(|wl| *level <= wl).unwrap_or(true) && subwin.map(|sw| l <= sw).unwrap_or(true) && Some(matched.len()) == max_matched && unique_pos {
                                    must.insert(call);
                                }
                            }
                        }
                    }
                }
                _ => {}
            }
        }
    }
    Some((allowed, must))
}

fn extra_queries(s: &mut Src, b: &Built, cmds: &CmdOut) -> Vec<GenQuery> {
    // words that are glob patterns matching a candidate, and candidates with blanks typed as one word,
    // placed where a command is expected, followed by another word so that they are not the last one
    let mut out = vec![];
    let row: Vec<(&Sym, &usize)> = b.dfa.trans[b.dfa.start].iter().collect();
    for (sym, _) in row {
        if let Sym::Cmd { text, .. } = sym {
            if let Some(c) = cmds.get(text).and_then(|v| v.first()) {
                let globs = [format!("{}*", &c[..1]), "?".repeat(c.chars().count()), format!("[{}]{}", &c[..1], &c[1..])];
                let g = globs[s.below(globs.len())].clone();
                out.push(GenQuery { words: vec![g.clone(), "zz".into()], cur: String::new(), kind: "glob_word_then_word" });
                out.push(GenQuery { words: vec![c.clone()], cur: String::new(), kind: "candidate_as_word" });
            }
            if let Some(c) = cmds.get(text).and_then(|v| v.iter().find(|x| x.contains(' '))) {
                out.push(GenQuery { words: vec![c.clone()], cur: String::new(), kind: "candidate_with_blank_as_word" });
                out.push(GenQuery { words: vec![], cur: c[..c.find(' ').unwrap() + 1].to_string(), kind: "prefix_with_blank" });
            }
        }
    }
    out.truncate(4);
    out
}

fn judge_grammar(g: &G, v: &Vocab, text: &str, qbytes: &[u8], nq: usize, extra: Vec<GenQuery>) -> Outcome {
    let Ok(b) = model::denote(g, "bash") else { return Outcome::Skip("model cannot elaborate".into()) };
    if interp::same_literal_two_labels(&b) {
        return Outcome::Skip("outside the stated domain: the same literal is expected at one point with two labels (C09's region)".into());
    }
    let cmds = cmd_outputs(g, v);
    let has_probe = cmds.keys().any(|k| probe_id(k).is_some());
    if !has_probe {
        return Outcome::Skip("no command in the grammar".into());
    }
    let script = match compile_bash(text) {
        Ok(s) => s,
        Err(o) => return o,
    };
    let mut s = Src::new(qbytes);
    let mut queries = gen_queries(&mut s, &b, &cmds, nq);
    // truncated words are the region of C01's known finding F-truncated-word-accepted: avoided here by
    // construction (and counted)
    queries.extend(extra_queries(&mut s, &b, &cmds));
    queries.extend(extra);
    let before = queries.len();
    queries.retain(|q| !interp::truncated_region(&b, &cmds, &q.words));
    let avoided = before - queries.len();
    match judge_queries(g, text, &script, &b, &cmds, &queries) {
        Outcome::Pass(mut c) => {
            if avoided > 0 {
                c.exclude("truncated-word queries avoided (known finding of C01)", avoided as u64);
            }
            Outcome::Pass(c)
        }
        o => o,
    }
}

/// the same emitted `break` as C01's known finding: an unmatched word directly before the cursor is skipped
/// when a command with candidates is expected there.  Returns what bash then offers (the candidates of the
/// state before that word) when the preconditions of that finding hold for this command line.
fn skip_alternative(b: &Built, cmds: &CmdOut, q: &GenQuery) -> Option<BTreeSet<String>> {
    let w = interp::walk(b, cmds, &q.words);
    if !q.words.is_empty() && w.trail.len() == q.words.len() && w.ambiguous.is_none() {
        let at = *w.trail.last()?;
        let last = q.words.last()?;
        let read_by_other = interp::readers(b, cmds, at, last).iter().any(|(s, _)| matches!(s, Sym::Lit { .. } | Sym::Word { .. }));
        let has_cmd = b.dfa.trans[at].iter().any(|(s, _)| matches!(s, Sym::Cmd { text, .. } if cmds.get(text).map(|c| !c.is_empty() && !c.iter().any(|x| x == last)).unwrap_or(false)));
        if has_cmd && !read_by_other {
            let by = interp::candidates_by_level(b, cmds, at, &q.cur);
            return Some(by.into_iter().next().map(|(_, s)| s).unwrap_or_default().into_iter().map(|c| interp::strip_wordbreaks(&q.cur, DEFAULT_WORDBREAKS, &c)).collect());
        }
    }
    None
}

fn judge_queries(g: &G, text: &str, script: &str, b: &Built, cmds: &CmdOut, queries: &[GenQuery]) -> Outcome {
    let mut seen = BTreeSet::new();
    let queries: Vec<&GenQuery> = queries.iter().filter(|q| seen.insert((q.words.clone(), q.cur.clone()))).collect();
    let qs: Vec<Query> = queries.iter().map(|q| Query { words: q.words.clone(), cur: q.cur.clone(), wordbreaks: None }).collect();
    let sess = bashdrv::Session { script, func: "_cmd".into(), command: "cmd".into(), prelude: prelude() };
    let replies = match bashdrv::run(&sess, &qs) {
        Ok(r) => r,
        Err(bashdrv::DrvError::Infra(e)) => return Outcome::Broken(e),
        Err(bashdrv::DrvError::Source(rc, e)) => return Outcome::Fail(Failure::new(format!("sourcing the script failed ({rc}): {e}"), json!({"text": text, "g": g.to_json()}))),
    };
    let known_ok = known_ids("C17");
    let mut c = Case::new(text.to_string());
    c.evals = 0;
    let mut excluded = 0;
    for (q, rep) in queries.iter().zip(replies.iter()) {
        let want = interp::expect(b, cmds, &q.words, &q.cur, DEFAULT_WORDBREAKS);
        let Some((allowed, must)) = expected_calls(b, cmds, q) else {
            excluded += 1;
            continue;
        };
        let observed: BTreeSet<String> = rep.compreply.iter().cloned().collect();
        let log: Vec<Call> = rep.log.iter().map(|(k, _argc, a1, a2)| (k.clone(), a1.clone(), a2.clone())).collect();
        let detail = |exp: String| {
            json!({"text": text, "g": g.to_json(), "words": q.words, "cur": q.cur, "observed": {"rc": rep.rc, "compreply": rep.compreply, "invocations": rep.log}, "expected": exp,
                   "cmds": cmds, "allowed_invocations": allowed, "required_invocations": must})
        };
        let want_set: BTreeSet<String> = match &want {
            Expect::Ambiguous(_) => {
                excluded += 1;
                continue;
            }
            Expect::Dead { .. } => BTreeSet::new(),
            Expect::Candidates(s) => s.clone(),
        };
        c.evals += 1;
        let id = "F-unmatched-word-skipped-before-command-C17";
        if let Some(alt) = skip_alternative(b, cmds, q) {
            if known_ok.contains(id) && (observed == alt || observed == want_set) {
                // in the region of the known finding: the skip also shows as extra invocations at the
                // state before the unmatched word, so the invocation oracles are not applied here
                if observed != want_set || rep.log.iter().any(|(k, _, a1, a2)| !allowed.contains(&(k.clone(), a1.clone(), a2.clone()))) {
                    c.known.push((id.to_string(), finding_what(id)));
                }
                c.exclude("queries in the region of the known finding (word skipped before a command)", 1);
                continue;
            }
        }
        if observed != want_set {
            return Outcome::Fail(Failure::new(
                format!("bash offers {:?} (rc {}) after words {:?} + typed {:?}; with the commands' fixed output the grammar prescribes {:?}", rep.compreply, rep.rc, q.words, q.cur, want_set),
                detail(format!("{:?}", want_set)),
            ));
        }
        for (k, argc, a1, a2) in &rep.log {
            if argc != "2" {
                return Outcome::Fail(Failure::new(format!("probe {k} was called with {argc} arguments (\"{a1}\", \"{a2}\"), expected two"), detail(String::new())));
            }
            if !allowed.contains(&(k.clone(), a1.clone(), a2.clone())) {
                return Outcome::Fail(Failure::new(
                    format!("command probe {k} was run with (\"{a1}\", \"{a2}\") for words {:?} + typed {:?}: the grammar does not expect that command there / with these arguments", q.words, q.cur),
                    detail(String::new()),
                ));
            }
        }
        for m in &must {
            if !log.contains(m) {
                return Outcome::Fail(Failure::new(
                    format!("command probe {} expected at the cursor was not run with (\"{}\", \"{}\") for words {:?} + typed {:?}", m.0, m.1, m.2, q.words, q.cur),
                    detail(String::new()),
                ));
            }
        }
        if !rep.log.is_empty() {
            let in_word = rep.log.iter().any(|(_, _, _, a2)| !a2.is_empty());
            c.extra_keys.push(format!("{}|{:?}|{}", crate::src::hash_str(text), q.words, q.cur));
            c.class(if in_word { "invocation:inside_word" } else { "invocation:top_level" });
        }
        c.class(format!("query:{}", q.kind));
    }
    if excluded > 0 {
        c.exclude("ambiguous_excluded", excluded);
    }
    let fb = g.exprs().any(|e| e.has(&|x| matches!(x, E::Fb(_))));
    if fb {
        c.class("grammar:fallback");
    }
    c.sample = Some(json!({"text": text, "queries": queries.iter().take(3).map(|q| json!({"words": q.words, "cur": q.cur})).collect::<Vec<_>>()}));
    Outcome::Pass(c)
}

/// an extra call variant that puts commands where they are rarest in random grammars: inside a word on a
/// later || level of that word, and in several words of one shape that differ only in their command
fn add_stress(s: &mut Src, g: &mut G, v: &mut Vocab) -> Vec<GenQuery> {
    let pool = probe_cmd_pool();
    let i = s.below(pool.len());
    let j = (i + 1 + s.below(pool.len() - 1)) % pool.len();
    let k = (0..pool.len()).find(|x| *x != i && *x != j).unwrap();
    for x in [i, j, k] {
        if !v.cmds.iter().any(|c| c.text == pool[x].text) {
            v.cmds.push(pool[x].clone());
        }
    }
    let first = if s.bool() { lit("fast") } else { E::Cmd(pool[k].text.clone()) };
    let words = E::Alt(vec![
        E::Word(vec![lit("--m="), E::Fb(vec![first, E::Cmd(pool[i].text.clone())])]),
        E::Word(vec![lit("--c="), E::Cmd(pool[i].text.clone())]),
        E::Word(vec![lit("--f="), E::Cmd(pool[j].text.clone())]),
        E::Word(vec![lit("--t="), E::Cmd(pool[k].text.clone())]),
    ]);
    g.stmts.push(Stmt::Call { name: "cmd".into(), e: E::Seq(vec![lit("stress"), words, E::Opt(Box::new(lit("end")))]) });
    let mut qs = vec![];
    for (opener, x) in [("--m=", i), ("--c=", i), ("--f=", j), ("--t=", k)] {
        qs.push(GenQuery { words: vec!["stress".into()], cur: opener.to_string(), kind: "stress" });
        if let Some((c, _)) = pool[x].lines.first() {
            qs.push(GenQuery { words: vec!["stress".into()], cur: format!("{opener}{}", &c[..1]), kind: "stress" });
            qs.push(GenQuery { words: vec!["stress".into(), format!("{opener}{c}")], cur: String::new(), kind: "stress" });
        }
    }
    // one command, reached through a definition, expected at two different || levels
    let d = pool[j].text.clone();
    g.stmts.push(Stmt::Def { name: "PD".into(), shell: None, e: E::Cmd(d) });
    g.stmts.push(Stmt::Call {
        name: "cmd".into(),
        e: E::Seq(vec![lit("st2"), E::Alt(vec![E::Seq(vec![nt("PD"), lit("one")]), E::Seq(vec![lit("two"), E::Fb(vec![lit("alpha"), nt("PD")])])])]),
    });
    let first_cand = pool[j].lines.first().map(|(c, _)| c.clone()).unwrap_or_default();
    let mut q2 = vec![
        GenQuery { words: vec!["st2".into()], cur: String::new(), kind: "stress_levels" },
        GenQuery { words: vec!["st2".into(), "two".into()], cur: String::new(), kind: "stress_levels" },
    ];
    if !first_cand.is_empty() && !"alpha".starts_with(&first_cand[..1]) {
        q2.push(GenQuery { words: vec!["st2".into(), "two".into()], cur: first_cand[..1].to_string(), kind: "stress_levels" });
    }
    let pick = s.below(qs.len());
    let pick2 = s.below(qs.len());
    let pick3 = s.below(q2.len());
    vec![qs[pick].clone(), qs[pick2].clone(), qs[1].clone(), q2[pick3].clone(), q2[(pick3 + 1) % q2.len()].clone()]
}

fn case(bytes: &[u8]) -> Outcome {
    let n = bytes.len();
    let (ga, qb) = bytes.split_at(n * 2 / 3);
    let (mut g, mut v) = gen_clean(&mut Src::new(ga), &profile());
    let mut sq = Src::new(qb);
    let lead: Vec<u8> = (0..8).map(|_| sq.byte()).collect();
    let mut extra = vec![];
    let mut ls = Src::new(&lead);
    if ls.chance(2, 3) && !g.exprs().any(|e| e.has(&|x| matches!(x, E::Lit { text, .. } if text == "stress" || text == "st2"))) && !g.defs().any(|(n, _, _)| n == "PD") {
        extra = add_stress(&mut ls, &mut g, &mut v);
    }
    let text = print_minimal(&g);
    judge_grammar(&g, &v, &text, &qb[8.min(qb.len())..], 8, extra)
}

fn case_regress(doc: &serde_json::Value) -> Outcome {
    let Some(g) = super::common::grammar_from_doc(doc) else { return Outcome::Broken("bad regress file".into()) };
    let text = print_minimal(&g);
    let Ok(b) = model::denote(&g, "bash") else { return Outcome::Broken("model".into()) };
    let mut cmds: CmdOut = BTreeMap::new();
    for (k, c) in probe_cmd_pool().iter().enumerate() {
        cmds.insert(probe_text(k), c.lines.iter().map(|(a, _)| a.clone()).collect());
    }
    let script = match compile_bash(&text) {
        Ok(s) => s,
        Err(o) => return o,
    };
    let queries: Vec<GenQuery> = doc["queries"]
        .as_array()
        .map(|a| {
            a.iter()
                .map(|q| GenQuery {
                    words: q["words"].as_array().map(|w| w.iter().filter_map(|x| x.as_str().map(|s| s.to_string())).collect()).unwrap_or_default(),
                    cur: q["cur"].as_str().unwrap_or("").to_string(),
                    kind: "regress",
                })
                .collect()
        })
        .unwrap_or_default();
    match judge_queries(&g, &text, &script, &b, &cmds, &queries) {
        Outcome::Pass(mut c) => {
            c.nontrivial = true;
            Outcome::Pass(c)
        }
        o => o,
    }
}

pub fn run(tier: Tier, seed: u64) -> i32 {
    let mut run = Run::new(
        "C17",
        tier,
        seed,
        "exploration",
        "clean grammars whose commands are probes (`__cgv_probe K \"$@\"`: append (K, argc, $1, $2) to a per-query log, print K's fixed lines: plain candidates, candidates with tab-separated descriptions, candidates containing blanks, an empty list) placed at top level, inside words after a literal prefix, under [], ..., |, ||, through definitions; compiled with the real binary, executed in bash with generated command lines (C01's walk generator plus: glob patterns matching a candidate as an earlier word, a candidate with a blank as one word). Oracles: (1) COMPREPLY = reference interpreter's answer where a candidate is the text before the first tab; (2) every logged invocation is allowed: that command is expected at the state reached by the words before it, with (\"\",\"\") when an earlier word is matched at top level, (typed prefix, \"\") at the cursor, (rest, matched part) inside a word; (3) every command expected at the cursor's state at a level up to the winning one was invoked with the cursor arguments; (4) argc is 2. Non-trivial: >=1 probe invocation; distinct by (grammar, words, prefix); classes report invocations inside words and grammars with ||.",
    );
    run.shards = 2;
    run.shrink_iters = 40;
    run.enumerate("regress", load_regress("C17"), false, case_regress);
    if !run.failed() {
        run.random("bash", tier.pick(120, 2_000), 500, case);
    }
    let code = run.finish();
    cleanup_scratch();
    code
}

pub fn replay(doc: &serde_json::Value) -> i32 {
    let d = if doc.get("detail").is_some() { &doc["detail"] } else { doc };
    let mut d2 = d.clone();
    if d2.get("queries").is_none() {
        d2["queries"] = json!([{"words": d["words"], "cur": d["cur"]}]);
    }
    let r = case_regress(&d2);
    cleanup_scratch();
    match r {
        Outcome::Fail(f) => {
            println!("VIOLATION property=C17 replay=(given) {}", f.msg);
            1
        }
        Outcome::Broken(_) => 2,
        _ => 0,
    }
}
