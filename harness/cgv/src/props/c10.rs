//! C10 — output is a pure function of the input.

use super::common::*;
use crate::bin::*;
use crate::engine::*;
use crate::gen_clean::Profile;
use crate::obs;
use crate::src::{hash_str, Src};
use serde_json::json;

pub fn large_profile() -> Profile {
    let mut p = Profile::general();
    p.max_depth = 7;
    p.max_nodes = 220;
    p.max_defs = 6;
    p.vocab = (6, 8);
    p.w = [4, 9, 7, 3, 3, 3, 7, 5, 2, 4, 3, 2];
    p
}

fn outputs(text: &str, shell: &str) -> Result<obs::Outputs, String> {
    // every randomly seeded std container gets fresh keys per instance, so repeated compilations in one
    // thread already see different iteration orders
    match std::panic::catch_unwind(|| obs::compile_outputs(text, shell)) {
        Ok(Ok(o)) => Ok(o),
        Ok(Err((st, k))) => Err(format!("{st}: {k}")),
        Err(_) => Err("panic".into()),
    }
}

/// sizes at which two iteration orders of a hashed container differ with overwhelming probability
fn nontrivial_size(states: usize, subdfas: usize) -> bool {
    (states >= 12 && subdfas >= 1) || subdfas >= 3 || states >= 30
}

fn first_diff(a: &str, b: &str) -> String {
    let at = a.bytes().zip(b.bytes()).position(|(p, q)| p != q).unwrap_or(a.len().min(b.len()));
    let lo = at.saturating_sub(80);
    let cut = |s: &str| String::from_utf8_lossy(&s.as_bytes()[lo.min(s.len())..(at + 80).min(s.len())]).to_string();
    format!("byte {at}: {:?} vs {:?}", cut(a), cut(b))
}

/// in one process: compile the same text several times, everything must be byte-identical
fn case_inproc(bytes: &[u8], profile: &Profile, repeats: usize) -> Outcome {
    let cc = clean_case(bytes, profile, false);
    judge_inproc(&cc.text, repeats, Some(&cc.g))
}

fn judge_inproc(text: &str, repeats: usize, g: Option<&crate::ast::G>) -> Outcome {
    let mut c = Case::new(text.to_string());
    c.evals = 0;
    for shell in obs::SHELLS {
        let first = match outputs(text, shell) {
            Ok(o) => o,
            Err(e) => {
                c.exclude(format!("not compiled ({})", if e == "panic" { "panic" } else { "rejected" }), 1);
                continue;
            }
        };
        for r in 1..repeats {
            c.evals += 1;
            let again = match outputs(text, shell) {
                Ok(o) => o,
                Err(e) => {
                    return Outcome::Fail(Failure::new(
                        format!("compilation {r} of the same grammar for {shell} in one process failed ({e}) after it had succeeded"),
                        json!({"text": text, "shell": shell, "g": g.map(|g| g.to_json())}),
                    ))
                }
            };
            for (what, a, b) in [("script", &first.script, &again.script), ("--dfa file", &first.dfa_dot, &again.dfa_dot), ("--regex file", &first.regex_dot, &again.regex_dot)] {
                if a != b {
                    return Outcome::Fail(Failure::new(
                        format!("two compilations of one grammar for {shell} inside one process differ in the {what}: {}", first_diff(a, b)),
                        json!({"text": text, "shell": shell, "what": what, "g": g.map(|g| g.to_json())}),
                    ));
                }
            }
        }
        if nontrivial_size(first.states, first.subdfas) {
            c.nontrivial = true;
        }
        for k in [10, 20, 30, 50] {
            if first.states >= k {
                c.class(format!("states>={k}"));
            }
        }
        if first.subdfas >= 3 {
            c.class("within-word automata>=3");
        }
    }
    if c.evals == 0 {
        return Outcome::Skip("rejected for all shells".into());
    }
    c.sample = Some(json!({"text": text.chars().take(400).collect::<String>()}));
    Outcome::Pass(c)
}

const ENV_NAMES: [&str; 8] = ["CGV_A", "LANG", "LC_ALL", "HOME", "TERM", "RUST_LOG", "COLUMNS", "TMPDIR"];

/// separately started processes with different environments, argv spellings and destinations
fn judge_procs(text: &str, salt: u64, nproc: usize, g: Option<&crate::ast::G>) -> Outcome {
    let mut c = Case::new(text.to_string());
    c.evals = 0;
    let sc = Scratch::new();
    let sub = sc.path("d");
    let _ = std::fs::create_dir_all(&sub);
    let inp = sc.path("in.usage");
    if std::fs::write(&inp, text).is_err() {
        return Outcome::Broken("cannot write scratch file".into());
    }
    for shell in obs::SHELLS {
        let lib = outputs(text, shell).ok();
        let mut first: Option<(Vec<u8>, Vec<u8>, Vec<u8>)> = None;
        for k in 0..nproc {
            let seedbytes: Vec<u8> = (0..64u64).map(|i| (crate::src::mix64(salt ^ hash_str(shell) ^ (k as u64 * 7919 + i)) & 0xff) as u8).collect();
            let mut s = Src::new(&seedbytes);
            let mut env: Vec<(String, String)> = vec![];
            for _ in 0..s.below(6) {
                let name = ENV_NAMES[s.below(ENV_NAMES.len())].to_string();
                let len = s.below(200);
                let val: String = (0..len).map(|i| (b'a' + ((i * 7 + k) % 26) as u8) as char).collect();
                env.push((name, val));
            }
            // different spellings of the same input path
            let inp_s = match s.below(3) {
                0 => inp.to_string_lossy().to_string(),
                1 => format!("{}/d/../in.usage", sc.0.to_string_lossy()),
                _ => format!("{}/./in.usage", sc.0.to_string_lossy()),
            };
            let to_file = s.bool();
            let dfa_p = sc.path(&format!("dfa.{shell}.{k}.dot"));
            let re_p = sc.path(&format!("re.{shell}.{k}.dot"));
            let out_p = sc.path(&format!("_cmd.{shell}.{k}"));
            let args = vec![
                format!("--{shell}"),
                if to_file { out_p.to_string_lossy().to_string() } else { "-".to_string() },
                inp_s,
                "--dfa".to_string(),
                dfa_p.to_string_lossy().to_string(),
                "--regex".to_string(),
                re_p.to_string_lossy().to_string(),
            ];
            let r = match complgen(&args, None, &env, None) {
                Ok(r) => r,
                Err(e) => return Outcome::Broken(format!("cannot run the binary: {e}")),
            };
            if r.timed_out {
                return Outcome::Broken("binary timed out".into());
            }
            if r.status != Some(0) {
                if lib.is_some() {
                    return Outcome::Fail(Failure::new(
                        format!("complgen --{shell} exits with {:?} in process {k} although the library pipeline accepts the grammar: {}", r.status, r.stderr_s()),
                        json!({"text": text, "shell": shell, "g": g.map(|g| g.to_json())}),
                    ));
                }
                c.exclude("rejected", 1);
                break;
            }
            let script = if to_file { std::fs::read(&out_p).unwrap_or_default() } else { r.stdout.clone() };
            let dfa = std::fs::read(&dfa_p).unwrap_or_default();
            let re = std::fs::read(&re_p).unwrap_or_default();
            c.evals += 1;
            match &first {
                None => {
                    if let Some(l) = &lib {
                        for (what, a, b) in [
                            ("script", strip_sig(&String::from_utf8_lossy(&script)), strip_sig(&l.script)),
                            ("--dfa file", String::from_utf8_lossy(&dfa).to_string(), l.dfa_dot.clone()),
                            ("--regex file", String::from_utf8_lossy(&re).to_string(), l.regex_dot.clone()),
                        ] {
                            if a != b {
                                return Outcome::Fail(Failure::new(
                                    format!("the binary's {what} for {shell} differs from what the library pipeline produces in this process: {}", first_diff(&a, &b)),
                                    json!({"text": text, "shell": shell, "what": what, "g": g.map(|g| g.to_json())}),
                                ));
                            }
                        }
                    }
                    first = Some((script, dfa, re));
                }
                Some((s0, d0, r0)) => {
                    for (what, a, b) in [("script", s0, &script), ("--dfa file", d0, &dfa), ("--regex file", r0, &re)] {
                        if a != b {
                            return Outcome::Fail(Failure::new(
                                format!(
                                    "process {k} (different environment / path spelling / destination) wrote a different {what} for {shell}: {}",
                                    first_diff(&String::from_utf8_lossy(a), &String::from_utf8_lossy(b))
                                ),
                                json!({"text": text, "shell": shell, "what": what, "g": g.map(|g| g.to_json())}),
                            ));
                        }
                    }
                }
            }
        }
        if let Some(l) = &lib {
            if nontrivial_size(l.states, l.subdfas) {
                c.nontrivial = true;
                c.class("large");
            }
        }
    }
    if c.evals == 0 {
        return Outcome::Skip("rejected".into());
    }
    c.sample = Some(json!({"text": text.chars().take(300).collect::<String>(), "processes_per_shell": nproc}));
    Outcome::Pass(c)
}

fn examples() -> Vec<(String, String)> {
    let mut v = vec![];
    for dir in ["/repo/examples", "/repo/usage"] {
        if let Ok(rd) = std::fs::read_dir(dir) {
            let mut names: Vec<_> = rd.filter_map(|e| e.ok()).map(|e| e.path()).filter(|p| p.extension().map(|x| x == "usage").unwrap_or(false)).collect();
            names.sort();
            for p in names {
                if let Ok(t) = std::fs::read_to_string(&p) {
                    v.push((p.to_string_lossy().to_string(), t));
                }
            }
        }
    }
    v
}

pub fn run(tier: Tier, seed: u64) -> i32 {
    let mut run = Run::new(
        "C10",
        tier,
        seed,
        "exploration",
        "differential: the same grammar text is compiled repeatedly and script, --dfa file and --regex file are compared byte for byte. Part 'in-process': 3 compilations per (grammar, shell) inside the harness process, each in a fresh thread (every randomly seeded std container gets new keys per instance and per thread). Part 'processes': separately started complgen processes per (grammar, shell) with different environments (random variables of random length, LANG/HOME/TMPDIR...), path spellings of the same input and destinations (stdout / file), also compared with the library's output. Grammars: bundled examples + random 'large' clean grammars (up to 160 nodes, 6 definitions, twin words). Non-trivial: minimised automaton with >=12 states and >=1 within-word automaton, or >=3 within-word automata, or >=30 states; distinct by grammar text.",
    );
    run.assumptions.push("a hash seed fixed at compile time cannot be varied from outside; the check detects per-instance / per-thread / per-process nondeterminism".into());
    let ex = examples();
    let nproc = tier.pick(3, 6);
    run.enumerate("regress", load_regress("C10"), false, |d| judge_inproc(d["text"].as_str().unwrap_or(""), d["repeat"].as_u64().unwrap_or(50) as usize, None));
    run.enumerate("examples-in-process", ex.clone(), true, |(_, t)| judge_inproc(t, 6, None));
    run.shards = 3;
    run.enumerate("examples-processes", ex, true, move |(_, t)| judge_procs(t, seed, nproc, None));
    let large = large_profile();
    run.shrink_iters = 60;
    if !run.failed() {
        run.random("large-processes", tier.pick(24, 1_500), 1200, |b| {
            let cc = clean_case(b, &large, false);
            judge_procs(&cc.text, seed ^ hash_str(&cc.text), nproc, Some(&cc.g))
        });
    }
    run.shards = nshards();
    run.shrink_iters = 2000;
    if !run.failed() {
        run.random("large-in-process", tier.pick(80_000, 3_000_000), 1200, |b| case_inproc(b, &large, 3));
    }
    if !run.failed() {
        let general = Profile::general();
        run.random("general-in-process", tier.pick(150_000, 5_000_000), 600, |b| case_inproc(b, &general, 3));
    }
    let code = run.finish();
    cleanup_scratch();
    code
}

pub fn replay(doc: &serde_json::Value) -> i32 {
    let d = if doc.get("detail").is_some() { &doc["detail"] } else { doc };
    let Some(text) = d["text"].as_str() else { return 2 };
    let r = match judge_inproc(text, 100, None) {
        Outcome::Pass(_) => judge_procs(text, 1, 6, None),
        other => other,
    };
    cleanup_scratch();
    match r {
        Outcome::Fail(f) => {
            println!("VIOLATION property=C10 replay=(given) {}", f.msg);
            1
        }
        Outcome::Broken(_) => 2,
        _ => 0,
    }
}
