//! C09 — a typed word never has two readings; `||` is transparent to matching.

use super::c01::{cmd_outputs, compile_bash, gen_queries, GenQuery};
use crate::ast::*;
use crate::bashdrv::{self, Query, DEFAULT_WORDBREAKS};
use crate::bin::*;
use crate::engine::*;
use crate::gen_clean::{gen_clean, Profile, Vocab};
use crate::interp::{self, Expect};
use crate::model::{self, erase_labels};
use crate::obs;
use crate::print::*;
use crate::src::Src;
use complgen::dfa::Inp;
use serde_json::json;
use std::collections::{BTreeMap, BTreeSet};

pub fn profile(exec: bool) -> Profile {
    let mut p = Profile::general();
    p.exec_cmds = exec;
    p.descriptions = true;
    p.unique_points = false;
    p.prefix_free_words = exec;
    p.max_nodes = if exec { 26 } else { 40 };
    p.vocab = (2, 3);
    // many || and |, few distinct literals: the same literal shows up in several branches
    p.w = [7, 6, 6, 7, 3, 2, 5, 4, 1, 2, 1, 1];
    p
}

/// the complement of C01's restriction, built on purpose
pub fn inject(s: &mut Src, g: &mut G, v: &Vocab) -> &'static str {
    let l = |s: &mut Src| -> E {
        let t = s.pick(&v.lits).clone();
        E::Lit { text: t.clone(), descr: v.descr_of.get(&t).cloned().flatten() }
    };
    let head = l(s);
    let (t1, t2) = (l(s), l(s));
    let tail = |s: &mut Src, t: E| -> E {
        match s.below(3) {
            0 => t,
            1 => E::Seq(vec![t, lit("tl")]),
            _ => E::Opt(Box::new(t)),
        }
    };
    let (a, b) = (tail(s, t1), tail(s, t2));
    match s.below(5) {
        0 => {
            g.stmts.push(Stmt::Call { name: "cmd".into(), e: E::Fb(vec![E::Seq(vec![head.clone(), a]), E::Seq(vec![head, b])]) });
            "same literal opens two || branches"
        }
        1 => {
            g.stmts.push(Stmt::Call { name: "cmd".into(), e: E::Seq(vec![head.clone(), a]) });
            g.stmts.push(Stmt::Call { name: "cmd".into(), e: E::Seq(vec![head, b]) });
            "same literal opens two call variants"
        }
        2 => {
            g.stmts.push(Stmt::Call { name: "cmd".into(), e: E::Seq(vec![E::Fb(vec![head.clone(), E::Alt(vec![head, lit("alt2")])]), a]) });
            "same literal at two levels, same continuation"
        }
        3 => {
            // the same within-word expression with its alternatives in a different order, different continuations
            let vals: Vec<E> = v.word_lits.iter().take(3).map(|t| E::Lit { text: t.clone(), descr: v.descr_of.get(t).cloned().flatten() }).collect();
            if vals.len() < 2 {
                return "none";
            }
            let mut rev = vals.clone();
            rev.reverse();
            let w1 = E::Word(vec![lit("--tw="), E::Alt(vals)]);
            let w2 = E::Word(vec![lit("--tw="), E::Alt(rev)]);
            g.stmts.push(Stmt::Call { name: "cmd".into(), e: E::Alt(vec![E::Seq(vec![w1, a]), E::Seq(vec![w2, b])]) });
            "permuted twin words, different continuations"
        }
        _ => {
            let vals: Vec<E> = v.word_lits.iter().take(2).map(|t| E::Lit { text: t.clone(), descr: v.descr_of.get(t).cloned().flatten() }).collect();
            if vals.len() < 2 {
                return "none";
            }
            let w = E::Word(vec![lit("--sw="), E::Alt(vals)]);
            g.stmts.push(Stmt::Call { name: "cmd".into(), e: E::Fb(vec![E::Seq(vec![w.clone(), a]), E::Seq(vec![w, b])]) });
            "same word opens two || branches"
        }
    }
}

/// Oracle 1: no state has two outgoing items that accept a common word and differ in target
pub fn check_single_reading(text: &str, shell: &str) -> Result<Option<(bool, Option<String>)>, Failure> {
    let t = text.to_string();
    let sh = shell.to_string();
    let c = match std::panic::catch_unwind(move || obs::compile(&t, &sh)) {
        Ok(Ok(c)) => c,
        _ => return Ok(None),
    };
    let mut shared = false;
    let mut known: Option<String> = None;
    for (which, d) in [("raw", &c.raw), ("minimised", &c.min)] {
        let v = obs::view(d, shell);
        let mut stack: Vec<&obs::View> = vec![&v];
        while let Some(vw) = stack.pop() {
            for sv in vw.subviews.values() {
                stack.push(sv);
            }
            for (qi, row) in vw.structure.trans.iter().enumerate() {
                let mut by_key: BTreeMap<String, Vec<(u32, usize)>> = BTreeMap::new();
                for (k, t) in row {
                    let key = match &vw.inputs[*k as usize] {
                        Inp::Literal { literal, .. } => format!("L:{literal}"),
                        Inp::Command { cmd, .. } | Inp::Compadd { cmd, .. } => format!("C:{cmd}"),
                        Inp::Star => "*".to_string(),
                        Inp::Subword { .. } => match vw.subviews.get(k) {
                            Some(sv) => format!("W:{}", erase_labels(&sv.nfa.determinize()).canon()),
                            None => continue,
                        },
                    };
                    by_key.entry(key).or_default().push((*k, *t));
                }
                for (key, items) in by_key {
                    if items.len() < 2 {
                        continue;
                    }
                    shared = true;
                    let targets: BTreeSet<usize> = items.iter().map(|(_, t)| *t).collect();
                    if targets.len() > 1 {
                        let what: Vec<String> = items.iter().map(|(k, t)| format!("{:?} -> state {}", vw.inputs[*k as usize], vw.states[*t])).collect();
                        let twin = key.starts_with("W:") && items.iter().map(|(k, _)| format!("{:?}", vw.inputs[*k as usize])).collect::<BTreeSet<_>>().len() > 1;
                        if twin && known_ids("C09").contains("F-permuted-twin-words") {
                            known = Some("F-permuted-twin-words".to_string());
                            continue;
                        }
                        return Err(Failure::new(
                            format!("{which} automaton for {shell}: at state {} one typed word has two readings with different continuations: {:?}", vw.states[qi], what),
                            json!({"text": text, "shell": shell, "which": which}),
                        ));
                    }
                }
            }
        }
    }
    Ok(Some((shared, known)))
}

fn case_automaton(bytes: &[u8]) -> Outcome {
    let n = bytes.len();
    let (ga, xb) = bytes.split_at(n * 3 / 4);
    let (mut g, v) = gen_clean(&mut Src::new(ga), &profile(false));
    let mut sx = Src::new(xb);
    let how = if sx.chance(3, 4) { inject(&mut sx, &mut g, &v) } else { "none" };
    let text = print_minimal(&g);
    let mut c = Case::new(format!("{:?}", g));
    c.evals = 0;
    for shell in obs::SHELLS {
        match check_single_reading(&text, shell) {
            Err(mut f) => {
                if let serde_json::Value::Object(m) = &mut f.detail {
                    m.insert("g".into(), g.to_json());
                }
                return Outcome::Fail(f);
            }
            Ok(None) => c.exclude("rejected by the pipeline", 1),
            Ok(Some((shared, known))) => {
                c.evals += 1;
                if shared {
                    c.nontrivial = true;
                }
                if let Some(id) = known {
                    c.known.push((id.clone(), finding_what(&id)));
                }
            }
        }
    }
    if c.evals == 0 {
        return Outcome::Skip("rejected".into());
    }
    c.class(format!("injected:{how}"));
    c.sample = Some(json!({"text": text}));
    Outcome::Pass(c)
}

fn fb_to_alt(e: &E) -> E {
    match e {
        E::Fb(v) => E::Alt(v.iter().map(fb_to_alt).collect()),
        _ => e.map_children(&mut |c| fb_to_alt(c)),
    }
}

pub fn without_fallbacks(g: &G) -> G {
    G {
        stmts: g
            .stmts
            .iter()
            .map(|s| match s {
                Stmt::Call { name, e } => Stmt::Call { name: name.clone(), e: fb_to_alt(e) },
                Stmt::Def { name, shell, e } => Stmt::Def { name: name.clone(), shell: shell.clone(), e: fb_to_alt(e) },
            })
            .collect(),
    }
}

fn run_queries(script: &str, qs: &[GenQuery]) -> Result<Vec<bashdrv::Reply>, Outcome> {
    let bq: Vec<Query> = qs.iter().map(|q| Query { words: q.words.clone(), cur: q.cur.clone(), wordbreaks: None }).collect();
    let sess = bashdrv::Session { script, func: "_cmd".into(), command: "cmd".into(), prelude: String::new() };
    match bashdrv::run(&sess, &bq) {
        Ok(r) => Ok(r),
        Err(bashdrv::DrvError::Infra(e)) => Err(Outcome::Broken(e)),
        Err(bashdrv::DrvError::Source(rc, e)) => Err(Outcome::Fail(Failure::new(format!("sourcing the script failed ({rc}): {e}"), json!({})))),
    }
}

fn judge_bash(g: &G, v: &Vocab, qbytes: &[u8], how: &str) -> Outcome {
    judge_bash_with(g, v, qbytes, how, vec![])
}

fn judge_bash_with(g: &G, v: &Vocab, qbytes: &[u8], how: &str, extra: Vec<GenQuery>) -> Outcome {
    let g2 = without_fallbacks(g);
    let (t1, t2) = (print_minimal(g), print_minimal(&g2));
    let Ok(b1) = model::denote(g, "bash") else { return Outcome::Skip("model".into()) };
    let Ok(b2) = model::denote(&g2, "bash") else { return Outcome::Skip("model".into()) };
    let cmds = cmd_outputs(g, v);
    // the region of the known finding (permuted twin words) is left to oracle 1
    let in_twin_region = |text: &str| -> bool {
        let t = text.to_string();
        std::panic::catch_unwind(move || obs::compile(&t, "bash").map(|c| obs::equal_language_twin_words(&obs::view(&c.min, "bash"))).unwrap_or(false)).unwrap_or(false)
    };
    if in_twin_region(&t1) || in_twin_region(&t2) {
        return Outcome::Skip("permuted twin words: decided on the automaton (known finding)".into());
    }
    let (s1, s2) = match (compile_bash(&t1), compile_bash(&t2)) {
        (Ok(a), Ok(b)) => (a, b),
        (Err(Outcome::Broken(e)), _) | (_, Err(Outcome::Broken(e))) => return Outcome::Broken(e),
        _ => return Outcome::Skip("one of the two grammars is rejected (C08's business)".into()),
    };
    // command lines from the `|` grammar: matching must be the same in both
    let mut s = Src::new(qbytes);
    let mut qs = gen_queries(&mut s, &b2, &cmds, 8);
    qs.extend(extra);
    qs.retain(|q| !interp::truncated_region(&b2, &cmds, &q.words));
    let mut seen = BTreeSet::new();
    qs.retain(|q| seen.insert((q.words.clone(), q.cur.clone())));
    let (r1, r2) = match (run_queries(&s1, &qs), run_queries(&s2, &qs)) {
        (Ok(a), Ok(b)) => (a, b),
        (Err(o), _) | (_, Err(o)) => return o,
    };
    let mut c = Case::new(t1.clone());
    c.evals = 0;
    let has_fb = g.exprs().any(|e| e.has(&|x| matches!(x, E::Fb(_))));
    for ((q, a), bb) in qs.iter().zip(r1.iter()).zip(r2.iter()) {
        let o1: BTreeSet<String> = a.compreply.iter().cloned().collect();
        let o2: BTreeSet<String> = bb.compreply.iter().cloned().collect();
        let detail = || json!({"text": t1, "text_with_bars": t2, "g": g.to_json(), "words": q.words, "cur": q.cur, "with_fallbacks": a.compreply, "with_bars": bb.compreply, "cmds": cmds});
        // skip the region of C01's known finding (word skipped before a command)
        let w2 = interp::walk(&b2, &cmds, &q.words);
        if w2.ambiguous.is_some() {
            c.exclude("ambiguous in the | grammar (two kinds of readings)", 1);
            continue;
        }
        let e1 = interp::expect(&b1, &cmds, &q.words, &q.cur, DEFAULT_WORDBREAKS);
        let e2 = interp::expect(&b2, &cmds, &q.words, &q.cur, DEFAULT_WORDBREAKS);
        let set = |e: &Expect| -> Option<BTreeSet<String>> {
            match e {
                Expect::Candidates(s) => Some(s.clone()),
                Expect::Dead { .. } => Some(BTreeSet::new()),
                Expect::Ambiguous(_) => None,
            }
        };
        let (Some(w1), Some(w2s)) = (set(&e1), set(&e2)) else {
            c.exclude("ambiguous", 1);
            continue;
        };
        c.evals += 1;
        // known finding of C01 (unmatched word skipped before a command) hits both grammars alike
        if (o1 != w1 || o2 != w2s) && !q.words.is_empty() {
            let at = w2.trail.last().copied();
            if let Some(at) = at {
                let last = q.words.last().unwrap();
                let has_cmd = b2.dfa.trans[at].iter().any(|(s, _)| matches!(s, model::Sym::Cmd { text, .. } if cmds.get(text).map(|c| !c.is_empty() && !c.iter().any(|x| x == last)).unwrap_or(false)));
                let read_by_other = interp::readers(&b2, &cmds, at, last).iter().any(|(s, _)| matches!(s, model::Sym::Lit { .. } | model::Sym::Word { .. }));
                if has_cmd && !read_by_other && w2.trail.len() == q.words.len() {
                    c.exclude("region of C01's known finding (word skipped before a command)", 1);
                    continue;
                }
            }
        }
        if !o1.is_subset(&o2) {
            return Outcome::Fail(Failure::new(
                format!("after {:?} + typed {:?} the || grammar offers {:?}, which the | grammar ({:?}) does not offer", q.words, q.cur, o1.difference(&o2).collect::<Vec<_>>(), o2),
                detail(),
            ));
        }
        if o1.is_empty() != o2.is_empty() {
            return Outcome::Fail(Failure::new(
                format!("after {:?} + typed {:?} the || grammar offers {:?} but the | grammar offers {:?}: replacing || by | changed what is matched / what may follow", q.words, q.cur, o1, o2),
                detail(),
            ));
        }
        if o1 != w1 {
            return Outcome::Fail(Failure::new(
                format!("after {:?} + typed {:?} bash offers {:?}; the union of the continuations, first level with a candidate, is {:?}", q.words, q.cur, o1, w1),
                detail(),
            ));
        }
        if has_fb && !q.words.is_empty() {
            c.extra_keys.push(format!("{}|{:?}|{}", t1, q.words, q.cur));
        }
    }
    c.class(format!("injected:{how}"));
    c.sample = Some(json!({"with_fallbacks": t1, "with_bars": t2, "queries": qs.iter().take(3).map(|q| json!({"words": q.words, "cur": q.cur})).collect::<Vec<_>>()}));
    Outcome::Pass(c)
}

fn case_bash(bytes: &[u8]) -> Outcome {
    let n = bytes.len();
    let (ga, rest) = bytes.split_at(n / 2);
    let (xb, qb) = rest.split_at(rest.len() / 3);
    let (mut g, v) = gen_clean(&mut Src::new(ga), &profile(true));
    let mut sx = Src::new(xb);
    let mut how = inject(&mut sx, &mut g, &v);
    if how.starts_with("permuted") {
        how = "none";
        g.stmts.pop();
    }
    // two within-word expressions of one shape whose alternatives are split over the || levels differently
    let mut extra = vec![];
    if sx.chance(1, 2) && v.word_lits.len() >= 3 && !g.exprs().any(|e| e.has(&|x| matches!(x, E::Lit { text, .. } if text == "lv"))) {
        let l = |t: &String| E::Lit { text: t.clone(), descr: v.descr_of.get(t).cloned().flatten() };
        let (a, b, c3) = (l(&v.word_lits[0]), l(&v.word_lits[1]), l(&v.word_lits[2]));
        let w1 = E::Word(vec![lit("--lx="), E::Fb(vec![E::Alt(vec![a.clone(), b.clone()]), c3.clone()])]);
        let w2 = E::Word(vec![lit("--ly="), E::Fb(vec![c3, E::Alt(vec![b, a])])]);
        g.stmts.push(Stmt::Call { name: "cmd".into(), e: E::Seq(vec![lit("lv"), E::Alt(vec![w1, w2]), E::Opt(Box::new(lit("tl")))]) });
        for cur in ["--lx=", "--ly=", "--l"] {
            extra.push(GenQuery { words: vec!["lv".into()], cur: cur.to_string(), kind: "level_split" });
        }
        how = "same shape, different split over || levels";
    }
    // a nonterminal specialised for bash (and the built-in <PATH>) sitting under ||
    if sx.chance(1, 2) && !g.defs().any(|(n, _, _)| n == "SPX") && !g.exprs().any(|e| e.has(&|x| matches!(x, E::Lit { text, .. } if text == "spv"))) {
        g.stmts.push(Stmt::Def { name: "SPX".into(), shell: Some("bash".into()), e: E::Cmd("echo spx_out".into()) });
        g.stmts.push(Stmt::Call { name: "cmd".into(), e: E::Seq(vec![lit("spv"), E::Fb(vec![lit("alpha"), nt("SPX"), nt("PATH")]), E::Opt(Box::new(lit("tl")))]) });
        for (w, cur) in [(vec!["spv"], "s"), (vec!["spv"], ""), (vec!["spv", "spx_out"], ""), (vec!["spv", "zzfoo"], "")] {
            extra.push(GenQuery { words: w.iter().map(|x| x.to_string()).collect(), cur: cur.to_string(), kind: "specialised_under_fallback" });
        }
    }
    judge_bash_with(&g, &v, qb, how, extra)
}

fn case_regress(doc: &serde_json::Value) -> Outcome {
    let Some(g) = super::common::grammar_from_doc(doc) else { return Outcome::Broken("bad regress file".into()) };
    let text = print_minimal(&g);
    let mut c = Case::new(text.clone());
    c.evals = 0;
    for shell in obs::SHELLS {
        match check_single_reading(&text, shell) {
            Err(f) => return Outcome::Fail(f),
            Ok(Some((_, known))) => {
                c.evals += 1;
                if let Some(id) = known {
                    c.known.push((id.clone(), finding_what(&id)));
                }
            }
            Ok(None) => {}
        }
    }
    if doc["bash"].as_bool().unwrap_or(false) {
        let v = Vocab { lits: vec![], descr_of: Default::default(), word_lits: vec![], cmds: vec![] };
        let qb: Vec<u8> = (0..200u32).map(|i| (i * 37 % 251) as u8).collect();
        match judge_bash(&g, &v, &qb, "regress") {
            Outcome::Pass(c2) => c.evals += c2.evals,
            Outcome::Skip(_) => {}
            o => return o,
        }
    }
    c.nontrivial = true;
    c.sample = Some(json!({"text": text}));
    Outcome::Pass(c)
}

pub fn run(tier: Tier, seed: u64) -> i32 {
    let mut run = Run::new(
        "C09",
        tier,
        seed,
        "exploration",
        "the complement of C01's restriction, built on purpose: few literals and many || / | so that one literal is expected in several branches, plus injected shapes (the same literal opening two || branches or two call variants with different continuations, the same literal at two levels, the same within-word expression opening two || branches, the same within-word alternatives in a different order with different continuations) and twin words. Oracle 1 (exact, in-process, raw and minimised automaton, main and within-word, 4 shells): at every state, outgoing items that accept a common word (same literal text, same command, within-word automata with the same word language after erasing labels) lead to the same state. Oracle 2 (bash, metamorphic): G and G' = G with every || replaced by |, same generated command lines: COMPREPLY(G) is a subset of COMPREPLY(G'), one is empty iff the other is, and COMPREPLY(G) equals the reference interpreter's answer (union of continuations, first level with a candidate). Non-trivial: oracle 1: some state expects one word under >=2 items; oracle 2: grammar with || and >=1 word before the cursor; distinct by grammar (and query).",
    );
    run.enumerate("regress", load_regress("C09"), false, case_regress);
    if !run.failed() {
        run.random("automaton", tier.pick(120_000, 4_000_000), 600, case_automaton);
    }
    run.shards = 2;
    run.shrink_iters = 40;
    if !run.failed() {
        run.random("bash", tier.pick(90, 1_200), 500, case_bash);
    }
    let code = run.finish();
    cleanup_scratch();
    code
}

pub fn replay(doc: &serde_json::Value) -> i32 {
    let d = if doc.get("detail").is_some() { &doc["detail"] } else { doc };
    let mut d2 = d.clone();
    d2["bash"] = json!(true);
    let r = case_regress(&d2);
    cleanup_scratch();
    match r {
        Outcome::Fail(f) => {
            println!("VIOLATION property=C09 replay=(given) {}", f.msg);
            1
        }
        Outcome::Broken(_) => 2,
        _ => 0,
    }
}
