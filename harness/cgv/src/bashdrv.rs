//! Bash driver (DESIGN.md 2.6): sources an emitted script once in a non-interactive bash and runs every
//! query in a subshell; returns return code, COMPREPLY and the probe log of each query.

use crate::bin::{run_proc, Scratch};
use std::time::Duration;

#[derive(Clone, Debug, PartialEq, Eq, Hash)]
pub struct Query {
    /// complete words after the command name
    pub words: Vec<String>,
    /// the partially typed word under the cursor (may be empty)
    pub cur: String,
    /// None = bash's default COMP_WORDBREAKS
    pub wordbreaks: Option<String>,
}

#[derive(Clone, Debug, Default)]
pub struct Reply {
    pub rc: i32,
    pub compreply: Vec<String>,
    /// probe invocations: (probe id, argc, $1, $2)
    pub log: Vec<(String, String, String, String)>,
    pub stderr_note: String,
}

/// default COMP_WORDBREAKS of a non-interactive bash 5.2
pub const DEFAULT_WORDBREAKS: &str = " \t\n\"'@><=;|&(:";

pub fn sh_quote(s: &str) -> String {
    let mut o = String::from("$'");
    for b in s.bytes() {
        if b.is_ascii_alphanumeric() || b == b'_' || b == b'-' || b == b'=' || b == b'.' || b == b'/' || b == b':' || b == b',' || b == b'+' || b == b'%' {
            o.push(b as char);
        } else {
            o.push_str(&format!("\\x{:02x}", b));
        }
    }
    o.push('\'');
    o
}

pub const STUB: &str = "_get_comp_words_by_ref () {\n    words=(\"${COMP_WORDS[@]}\")\n    cword=$COMP_CWORD\n}\n";

/// probe function used by C17: logs (id, argc, $1, $2) NUL-separated, then prints the fixed lines of probe id
pub const PROBE: &str = r#"__cgv_probe () {
    local k=$1; shift
    printf '%s\0%s\0%s\0%s\0' "$k" "$#" "${1-}" "${2-}" >> "$CGV_LOG"
    local v="__cgv_out_$k"
    printf '%s' "${!v}"
}
"#;

pub struct Session<'a> {
    pub script: &'a str,
    pub func: String,
    pub command: String,
    /// extra bash text evaluated after the stub and before sourcing (probe outputs, canaries, ...)
    pub prelude: String,
}

pub fn bash_n(script: &str) -> Result<(), String> {
    let sc = Scratch::new();
    let p = sc.path("s.bash");
    std::fs::write(&p, script).map_err(|e| e.to_string())?;
    let out = run_proc("bash", &["--norc".into(), "--noprofile".into(), "-n".into(), p.to_string_lossy().to_string()], None, &[], None, Duration::from_secs(20))
        .map_err(|e| e.to_string())?;
    if out.status == Some(0) {
        Ok(())
    } else {
        Err(out.stderr_s())
    }
}

#[derive(Debug)]
pub enum DrvError {
    /// the driver itself could not run (exit 2 material)
    Infra(String),
    /// sourcing the script failed (rc, stderr)
    Source(i32, String),
}

pub fn run(sess: &Session, queries: &[Query]) -> Result<Vec<Reply>, DrvError> {
    run_listing(sess, queries).map(|(r, _)| r)
}

/// like `run`, and also returns the names of the files that exist in the working directory afterwards
/// (nothing the script runs may create any: canary for command substitution in grammar text)
pub fn run_listing(sess: &Session, queries: &[Query]) -> Result<(Vec<Reply>, Vec<String>), DrvError> {
    let sc = Scratch::new();
    let script_path = sc.path("script.bash");
    std::fs::write(&script_path, sess.script).map_err(|e| DrvError::Infra(e.to_string()))?;
    let work = sc.path("cwd");
    let _ = std::fs::create_dir_all(&work);
    let mut d = String::new();
    d.push_str(STUB);
    d.push_str(PROBE);
    d.push_str(&sess.prelude);
    d.push_str(&format!("source {} 2>\"$CGV_DIR/source.err\" || {{ printf 'SOURCEFAIL %d\\n' $?; exit 0; }}\n", sh_quote(&script_path.to_string_lossy())));
    d.push_str("printf 'SOURCED\\n'\n");
    for (i, q) in queries.iter().enumerate() {
        let mut words = vec![sh_quote(&sess.command)];
        for w in &q.words {
            words.push(sh_quote(w));
        }
        words.push(sh_quote(&q.cur));
        let wb = match &q.wordbreaks {
            Some(w) => format!("COMP_WORDBREAKS={}; ", sh_quote(w)),
            None => String::new(),
        };
        d.push_str(&format!(
            "( {wb}CGV_LOG=\"$CGV_DIR/log.{i}\"; : > \"$CGV_LOG\"; COMP_WORDS=({ws}); COMP_CWORD={cw}; COMP_LINE=\"${{COMP_WORDS[*]}}\"; COMP_POINT=${{#COMP_LINE}}; COMPREPLY=(); {f} {c} 2>>\"$CGV_DIR/q.err\" </dev/null; rc=$?; printf 'Q %d %d %d\\n' {i} $rc ${{#COMPREPLY[@]}}; for x in \"${{COMPREPLY[@]}}\"; do printf '%s\\0' \"$x\"; done; printf '\\n' )\n",
            wb = wb,
            i = i,
            ws = words.join(" "),
            cw = q.words.len() + 1,
            f = sess.func,
            c = sh_quote(&sess.command),
        ));
    }
    d.push_str("printf 'END\\n'\n");
    let drv_path = sc.path("driver.bash");
    std::fs::write(&drv_path, &d).map_err(|e| DrvError::Infra(e.to_string()))?;
    let env = vec![
        ("CGV_DIR".to_string(), sc.0.to_string_lossy().to_string()),
        ("HOME".to_string(), work.to_string_lossy().to_string()),
        ("LC_ALL".to_string(), "C.UTF-8".to_string()),
        ("PATH".to_string(), "/usr/local/bin:/usr/bin:/bin".to_string()),
    ];
    let timeout = Duration::from_secs(30 + queries.len() as u64 * 2);
    let out = run_proc_clean("bash", &["--norc".into(), "--noprofile".into(), drv_path.to_string_lossy().to_string()], &env, Some(&work), timeout)
        .map_err(|e| DrvError::Infra(format!("cannot run bash: {e}")))?;
    if out.timed_out {
        return Err(DrvError::Infra(format!("bash driver timed out after {:?} on {} queries", timeout, queries.len())));
    }
    let so = out.stdout;
    // parse
    let mut pos = 0usize;
    let read_line = |pos: &mut usize| -> Option<String> {
        let start = *pos;
        while *pos < so.len() && so[*pos] != b'\n' {
            *pos += 1;
        }
        if *pos >= so.len() {
            return None;
        }
        let l = String::from_utf8_lossy(&so[start..*pos]).to_string();
        *pos += 1;
        Some(l)
    };
    let first = read_line(&mut pos).unwrap_or_default();
    if let Some(rest) = first.strip_prefix("SOURCEFAIL ") {
        let err = std::fs::read_to_string(sc.path("source.err")).unwrap_or_default();
        return Err(DrvError::Source(rest.trim().parse().unwrap_or(1), err));
    }
    if first != "SOURCED" {
        return Err(DrvError::Infra(format!("unexpected driver output {:?}; stderr {:?}", first, String::from_utf8_lossy(&out.stderr))));
    }
    let source_err = std::fs::read_to_string(sc.path("source.err")).unwrap_or_default();
    if !source_err.trim().is_empty() {
        return Err(DrvError::Source(0, source_err));
    }
    let mut replies = vec![];
    for i in 0..queries.len() {
        let Some(h) = read_line(&mut pos) else {
            return Err(DrvError::Infra(format!("driver output ended before query {i}; stderr {:?}", String::from_utf8_lossy(&out.stderr))));
        };
        let parts: Vec<&str> = h.split(' ').collect();
        if parts.len() != 4 || parts[0] != "Q" || parts[1].parse::<usize>().ok() != Some(i) {
            return Err(DrvError::Infra(format!("bad header {:?} for query {i} (a command printed to the driver's stdout?)", h)));
        }
        let rc: i32 = parts[2].parse().unwrap_or(-1);
        let n: usize = parts[3].parse().unwrap_or(0);
        let mut items = vec![];
        for _ in 0..n {
            let start = pos;
            while pos < so.len() && so[pos] != 0 {
                pos += 1;
            }
            items.push(String::from_utf8_lossy(&so[start..pos]).to_string());
            pos += 1;
        }
        if pos < so.len() && so[pos] == b'\n' {
            pos += 1;
        }
        let mut log = vec![];
        if let Ok(bytes) = std::fs::read(sc.path(&format!("log.{i}"))) {
            let fields: Vec<String> = bytes.split(|b| *b == 0).map(|f| String::from_utf8_lossy(f).to_string()).collect();
            for ch in fields.chunks(4) {
                if ch.len() == 4 {
                    log.push((ch[0].clone(), ch[1].clone(), ch[2].clone(), ch[3].clone()));
                }
            }
        }
        replies.push(Reply { rc, compreply: items, log, stderr_note: String::new() });
    }
    let qerr = std::fs::read_to_string(sc.path("q.err")).unwrap_or_default();
    if !qerr.is_empty() {
        // keep (deduplicated) shell diagnostics: syntax errors inside the function at run time matter to C07
        let mut lines: Vec<&str> = qerr.lines().filter(|l| !l.contains("line editing not enabled")).collect();
        lines.dedup();
        let note = lines.into_iter().take(5).collect::<Vec<_>>().join("\n");
        for r in replies.iter_mut() {
            r.stderr_note = note.clone();
        }
    }
    let mut files: Vec<String> = std::fs::read_dir(&work).map(|rd| rd.filter_map(|e| e.ok()).map(|e| e.file_name().to_string_lossy().to_string()).collect()).unwrap_or_default();
    files.sort();
    Ok((replies, files))
}

fn run_proc_clean(prog: &str, args: &[String], env: &[(String, String)], cwd: Option<&std::path::Path>, timeout: Duration) -> std::io::Result<crate::bin::ProcOut> {
    crate::bin::run_proc_env(prog, args, None, env, cwd, timeout, true)
}
