//! Generic labelled automata: Thompson NFA, subset construction, trim, Moore minimisation, canonical
//! form, product-based equivalence with shortest distinguishing word.  Deliberately different algorithms
//! from complgen's (position automaton + Hopcroft).

use std::collections::{BTreeMap, BTreeSet, HashMap, VecDeque};
use std::fmt::Debug;

#[derive(Clone, Debug)]
pub struct Nfa<S> {
    pub eps: Vec<Vec<usize>>,
    pub trans: Vec<Vec<(S, usize)>>,
    pub start: usize,
    pub accept: BTreeSet<usize>,
}

impl<S: Ord + Clone + Debug> Nfa<S> {
    pub fn new() -> Self {
        Nfa { eps: vec![], trans: vec![], start: 0, accept: BTreeSet::new() }
    }
    pub fn add_state(&mut self) -> usize {
        self.eps.push(vec![]);
        self.trans.push(vec![]);
        self.eps.len() - 1
    }
    pub fn add_eps(&mut self, a: usize, b: usize) {
        self.eps[a].push(b);
    }
    pub fn add_edge(&mut self, a: usize, s: S, b: usize) {
        self.trans[a].push((s, b));
    }
    fn closure(&self, set: &BTreeSet<usize>) -> BTreeSet<usize> {
        let mut out = set.clone();
        let mut stack: Vec<usize> = set.iter().copied().collect();
        while let Some(q) = stack.pop() {
            for &r in &self.eps[q] {
                if out.insert(r) {
                    stack.push(r);
                }
            }
        }
        out
    }
    pub fn determinize(&self) -> Pdfa<S> {
        let start = self.closure(&BTreeSet::from([self.start]));
        let mut ids: HashMap<BTreeSet<usize>, usize> = HashMap::new();
        let mut sets = vec![start.clone()];
        ids.insert(start, 0);
        let mut trans: Vec<BTreeMap<S, usize>> = vec![];
        let mut accept = vec![];
        let mut i = 0;
        while i < sets.len() {
            let cur = sets[i].clone();
            accept.push(cur.iter().any(|q| self.accept.contains(q)));
            let mut by_sym: BTreeMap<S, BTreeSet<usize>> = BTreeMap::new();
            for &q in &cur {
                for (s, r) in &self.trans[q] {
                    by_sym.entry(s.clone()).or_default().insert(*r);
                }
            }
            let mut row = BTreeMap::new();
            for (s, tgt) in by_sym {
                let c = self.closure(&tgt);
                let id = match ids.get(&c) {
                    Some(id) => *id,
                    None => {
                        let id = sets.len();
                        ids.insert(c.clone(), id);
                        sets.push(c);
                        id
                    }
                };
                row.insert(s, id);
            }
            trans.push(row);
            i += 1;
        }
        Pdfa { start: 0, accept, trans }
    }
}

/// Partial deterministic automaton.
#[derive(Clone, Debug, PartialEq, Eq)]
pub struct Pdfa<S: Ord> {
    pub start: usize,
    pub accept: Vec<bool>,
    pub trans: Vec<BTreeMap<S, usize>>,
}

impl<S: Ord + Clone + Debug> Pdfa<S> {
    pub fn n(&self) -> usize {
        self.accept.len()
    }

    pub fn reachable(&self) -> Vec<bool> {
        let mut seen = vec![false; self.n()];
        let mut st = vec![self.start];
        seen[self.start] = true;
        while let Some(q) = st.pop() {
            for (_, &r) in &self.trans[q] {
                if !seen[r] {
                    seen[r] = true;
                    st.push(r);
                }
            }
        }
        seen
    }

    pub fn coreachable(&self) -> Vec<bool> {
        let n = self.n();
        let mut rev: Vec<Vec<usize>> = vec![vec![]; n];
        for q in 0..n {
            for (_, &r) in &self.trans[q] {
                rev[r].push(q);
            }
        }
        let mut seen = self.accept.clone();
        let mut st: Vec<usize> = (0..n).filter(|q| self.accept[*q]).collect();
        while let Some(q) = st.pop() {
            for &p in &rev[q] {
                if !seen[p] {
                    seen[p] = true;
                    st.push(p);
                }
            }
        }
        seen
    }

    /// keep states that are reachable and co-reachable; an empty language becomes one non-accepting state
    pub fn trim(&self) -> Pdfa<S> {
        let r = self.reachable();
        let c = self.coreachable();
        let keep: Vec<bool> = (0..self.n()).map(|q| r[q] && c[q]).collect();
        if !keep[self.start] {
            return Pdfa { start: 0, accept: vec![false], trans: vec![BTreeMap::new()] };
        }
        let mut newid = vec![usize::MAX; self.n()];
        let mut k = 0;
        for q in 0..self.n() {
            if keep[q] {
                newid[q] = k;
                k += 1;
            }
        }
        let mut accept = vec![];
        let mut trans = vec![];
        for q in 0..self.n() {
            if keep[q] {
                accept.push(self.accept[q]);
                trans.push(self.trans[q].iter().filter(|(_, r)| keep[**r]).map(|(s, r)| (s.clone(), newid[*r])).collect());
            }
        }
        Pdfa { start: newid[self.start], accept, trans }
    }

    /// Moore partition refinement on a (trim) partial automaton: class id per state
    pub fn moore_classes(&self) -> Vec<usize> {
        let n = self.n();
        let mut class: Vec<usize> = self.accept.iter().map(|a| *a as usize).collect();
        loop {
            let mut sig_ids: BTreeMap<(usize, Vec<(S, usize)>), usize> = BTreeMap::new();
            let mut next = vec![0usize; n];
            for q in 0..n {
                let sig: Vec<(S, usize)> = self.trans[q].iter().map(|(s, r)| (s.clone(), class[*r])).collect();
                let key = (class[q], sig);
                let l = sig_ids.len();
                let id = *sig_ids.entry(key).or_insert(l);
                next[q] = id;
            }
            let before: BTreeSet<usize> = class.iter().copied().collect();
            let after: BTreeSet<usize> = next.iter().copied().collect();
            let stable = before.len() == after.len();
            class = next;
            if stable {
                break;
            }
        }
        class
    }

    /// trim + merge equivalent states + BFS renumbering with symbols in sorted order
    pub fn minimize(&self) -> Pdfa<S> {
        let t = self.trim();
        let class = t.moore_classes();
        let nclasses = class.iter().copied().max().map(|m| m + 1).unwrap_or(0);
        let mut rep = vec![usize::MAX; nclasses];
        for q in 0..t.n() {
            if rep[class[q]] == usize::MAX {
                rep[class[q]] = q;
            }
        }
        // BFS over classes
        let mut order: Vec<usize> = vec![];
        let mut newid = vec![usize::MAX; nclasses];
        let mut dq = VecDeque::new();
        let sc = class[t.start];
        newid[sc] = 0;
        order.push(sc);
        dq.push_back(sc);
        while let Some(c) = dq.pop_front() {
            for (_, r) in &t.trans[rep[c]] {
                let rc = class[*r];
                if newid[rc] == usize::MAX {
                    newid[rc] = order.len();
                    order.push(rc);
                    dq.push_back(rc);
                }
            }
        }
        let mut accept = vec![];
        let mut trans = vec![];
        for c in &order {
            let q = rep[*c];
            accept.push(t.accept[q]);
            trans.push(t.trans[q].iter().map(|(s, r)| (s.clone(), newid[class[*r]])).collect());
        }
        Pdfa { start: 0, accept, trans }
    }

    /// canonical string of the language (call on any automaton; minimises first)
    pub fn canon(&self) -> String {
        let m = self.minimize();
        let mut s = String::new();
        for q in 0..m.n() {
            s.push_str(&format!("{}{}:", q, if m.accept[q] { "!" } else { "" }));
            for (sym, r) in &m.trans[q] {
                s.push_str(&format!("{:?}>{},", sym, r));
            }
            s.push(';');
        }
        s
    }

    pub fn is_empty_language(&self) -> bool {
        let c = self.coreachable();
        !c[self.start]
    }

    pub fn accepts(&self, word: &[S]) -> bool {
        let mut q = self.start;
        for s in word {
            match self.trans[q].get(s) {
                Some(r) => q = *r,
                None => return false,
            }
        }
        self.accept[q]
    }
}

/// Shortest word accepted by exactly one of the two automata (None = equivalent).
/// Returns (word, accepted_by_a).
pub fn distinguish<S: Ord + Clone + Debug>(a: &Pdfa<S>, b: &Pdfa<S>) -> Option<(Vec<S>, bool)> {
    // product over Option<state> (None = dead)
    type St = (Option<usize>, Option<usize>);
    let start: St = (Some(a.start), Some(b.start));
    let mut seen: BTreeSet<St> = BTreeSet::new();
    let mut dq: VecDeque<(St, Vec<S>)> = VecDeque::new();
    seen.insert(start);
    dq.push_back((start, vec![]));
    while let Some(((qa, qb), w)) = dq.pop_front() {
        let acc_a = qa.map(|q| a.accept[q]).unwrap_or(false);
        let acc_b = qb.map(|q| b.accept[q]).unwrap_or(false);
        if acc_a != acc_b {
            return Some((w, acc_a));
        }
        let mut syms: BTreeSet<S> = BTreeSet::new();
        if let Some(q) = qa {
            syms.extend(a.trans[q].keys().cloned());
        }
        if let Some(q) = qb {
            syms.extend(b.trans[q].keys().cloned());
        }
        for s in syms {
            let na = qa.and_then(|q| a.trans[q].get(&s).copied());
            let nb = qb.and_then(|q| b.trans[q].get(&s).copied());
            if na.is_none() && nb.is_none() {
                continue;
            }
            let st = (na, nb);
            if seen.insert(st) {
                let mut w2 = w.clone();
                w2.push(s);
                dq.push_back((st, w2));
            }
        }
    }
    None
}
