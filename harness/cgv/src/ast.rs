//! The harness's own grammar representation, written from the documented syntax (README "Syntax"),
//! independent of complgen's types.

#[derive(Clone, Debug, PartialEq, Eq, Hash)]
pub enum E {
    Lit { text: String, descr: Option<String> },
    Nt(String),
    Cmd(String),
    Seq(Vec<E>),
    Alt(Vec<E>),
    Fb(Vec<E>),
    Opt(Box<E>),
    Many(Box<E>),
    /// juxtaposition inside one shell word; >= 2 pieces
    Word(Vec<E>),
    /// group description: `( ... ) "descr"`
    Descr(Box<E>, String),
}

#[derive(Clone, Debug, PartialEq, Eq, Hash)]
pub enum Stmt {
    Call { name: String, e: E },
    Def { name: String, shell: Option<String>, e: E },
}

#[derive(Clone, Debug, PartialEq, Eq, Hash, Default)]
pub struct G {
    pub stmts: Vec<Stmt>,
}

pub fn lit(t: &str) -> E {
    E::Lit { text: t.to_string(), descr: None }
}
pub fn litd(t: &str, d: &str) -> E {
    E::Lit { text: t.to_string(), descr: Some(d.to_string()) }
}
pub fn nt(n: &str) -> E {
    E::Nt(n.to_string())
}
pub fn cmd(c: &str) -> E {
    E::Cmd(c.to_string())
}

impl E {
    pub fn size(&self) -> usize {
        match self {
            E::Lit { .. } | E::Nt(_) | E::Cmd(_) => 1,
            E::Seq(v) | E::Alt(v) | E::Fb(v) | E::Word(v) => 1 + v.iter().map(|e| e.size()).sum::<usize>(),
            E::Opt(e) | E::Many(e) | E::Descr(e, _) => 1 + e.size(),
        }
    }

    pub fn children(&self) -> Vec<&E> {
        match self {
            E::Lit { .. } | E::Nt(_) | E::Cmd(_) => vec![],
            E::Seq(v) | E::Alt(v) | E::Fb(v) | E::Word(v) => v.iter().collect(),
            E::Opt(e) | E::Many(e) | E::Descr(e, _) => vec![e.as_ref()],
        }
    }

    pub fn walk<'a>(&'a self, f: &mut dyn FnMut(&'a E)) {
        f(self);
        for c in self.children() {
            c.walk(f);
        }
    }

    pub fn map_children(&self, f: &mut dyn FnMut(&E) -> E) -> E {
        match self {
            E::Lit { .. } | E::Nt(_) | E::Cmd(_) => self.clone(),
            E::Seq(v) => E::Seq(v.iter().map(|e| f(e)).collect()),
            E::Alt(v) => E::Alt(v.iter().map(|e| f(e)).collect()),
            E::Fb(v) => E::Fb(v.iter().map(|e| f(e)).collect()),
            E::Word(v) => E::Word(v.iter().map(|e| f(e)).collect()),
            E::Opt(e) => E::Opt(Box::new(f(e))),
            E::Many(e) => E::Many(Box::new(f(e))),
            E::Descr(e, d) => E::Descr(Box::new(f(e)), d.clone()),
        }
    }

    /// operator kinds present (for non-triviality classification)
    pub fn op_kinds(&self) -> std::collections::BTreeSet<&'static str> {
        let mut s = std::collections::BTreeSet::new();
        self.walk(&mut |e| {
            let k = match e {
                E::Lit { .. } | E::Nt(_) | E::Cmd(_) => return,
                E::Seq(_) => "seq",
                E::Alt(_) => "alt",
                E::Fb(_) => "fb",
                E::Opt(_) => "opt",
                E::Many(_) => "many",
                E::Word(_) => "word",
                E::Descr(..) => "descr",
            };
            s.insert(k);
        });
        s
    }

    pub fn has(&self, pred: &dyn Fn(&E) -> bool) -> bool {
        let mut r = false;
        self.walk(&mut |e| {
            if pred(e) {
                r = true
            }
        });
        r
    }
}

/// What the parser is documented to do with words nested inside words: the inner word becomes a plain
/// sequence of its pieces (Appendix A rule 7).  `in_word` is true below a Word node.
pub fn expected_parse_tree(e: &E) -> E {
    fn go(e: &E, in_word: bool) -> E {
        match e {
            E::Word(ps) => {
                let ps2: Vec<E> = ps.iter().map(|p| go(p, true)).collect();
                if in_word {
                    E::Seq(ps2)
                } else {
                    E::Word(ps2)
                }
            }
            _ => e.map_children(&mut |c| go(c, in_word)),
        }
    }
    go(e, false)
}

impl G {
    pub fn calls(&self) -> impl Iterator<Item = (&String, &E)> {
        self.stmts.iter().filter_map(|s| match s {
            Stmt::Call { name, e } => Some((name, e)),
            _ => None,
        })
    }
    pub fn defs(&self) -> impl Iterator<Item = (&String, &Option<String>, &E)> {
        self.stmts.iter().filter_map(|s| match s {
            Stmt::Def { name, shell, e } => Some((name, shell, e)),
            _ => None,
        })
    }
    pub fn size(&self) -> usize {
        self.stmts
            .iter()
            .map(|s| match s {
                Stmt::Call { e, .. } | Stmt::Def { e, .. } => 1 + e.size(),
            })
            .sum()
    }
    pub fn exprs(&self) -> impl Iterator<Item = &E> {
        self.stmts.iter().map(|s| match s {
            Stmt::Call { e, .. } | Stmt::Def { e, .. } => e,
        })
    }
}

// ---- JSON form (replay / regression files are independent of the generators) -------------------

use serde_json::{json, Value};

impl E {
    pub fn to_json(&self) -> Value {
        match self {
            E::Lit { text, descr } => json!({"lit": text, "descr": descr}),
            E::Nt(n) => json!({"nt": n}),
            E::Cmd(c) => json!({"cmd": c}),
            E::Seq(v) => json!({"seq": v.iter().map(|e| e.to_json()).collect::<Vec<_>>()}),
            E::Alt(v) => json!({"alt": v.iter().map(|e| e.to_json()).collect::<Vec<_>>()}),
            E::Fb(v) => json!({"fb": v.iter().map(|e| e.to_json()).collect::<Vec<_>>()}),
            E::Word(v) => json!({"word": v.iter().map(|e| e.to_json()).collect::<Vec<_>>()}),
            E::Opt(e) => json!({"opt": e.to_json()}),
            E::Many(e) => json!({"many": e.to_json()}),
            E::Descr(e, d) => json!({"group": e.to_json(), "descr": d}),
        }
    }
    pub fn from_json(v: &Value) -> Option<E> {
        let list = |x: &Value| -> Option<Vec<E>> { x.as_array()?.iter().map(E::from_json).collect() };
        if let Some(t) = v.get("lit") {
            return Some(E::Lit { text: t.as_str()?.to_string(), descr: v.get("descr").and_then(|d| d.as_str()).map(|s| s.to_string()) });
        }
        if let Some(t) = v.get("nt") {
            return Some(E::Nt(t.as_str()?.to_string()));
        }
        if let Some(t) = v.get("cmd") {
            return Some(E::Cmd(t.as_str()?.to_string()));
        }
        if let Some(t) = v.get("seq") {
            return Some(E::Seq(list(t)?));
        }
        if let Some(t) = v.get("alt") {
            return Some(E::Alt(list(t)?));
        }
        if let Some(t) = v.get("fb") {
            return Some(E::Fb(list(t)?));
        }
        if let Some(t) = v.get("word") {
            return Some(E::Word(list(t)?));
        }
        if let Some(t) = v.get("opt") {
            return Some(E::Opt(Box::new(E::from_json(t)?)));
        }
        if let Some(t) = v.get("many") {
            return Some(E::Many(Box::new(E::from_json(t)?)));
        }
        if let Some(t) = v.get("group") {
            return Some(E::Descr(Box::new(E::from_json(t)?), v.get("descr")?.as_str()?.to_string()));
        }
        None
    }
}

impl G {
    pub fn to_json(&self) -> Value {
        Value::Array(
            self.stmts
                .iter()
                .map(|s| match s {
                    Stmt::Call { name, e } => json!({"call": name, "e": e.to_json()}),
                    Stmt::Def { name, shell, e } => json!({"def": name, "shell": shell, "e": e.to_json()}),
                })
                .collect(),
        )
    }
    pub fn from_json(v: &Value) -> Option<G> {
        let mut stmts = vec![];
        for s in v.as_array()? {
            let e = E::from_json(s.get("e")?)?;
            if let Some(n) = s.get("call") {
                stmts.push(Stmt::Call { name: n.as_str()?.to_string(), e });
            } else {
                stmts.push(Stmt::Def {
                    name: s.get("def")?.as_str()?.to_string(),
                    shell: s.get("shell").and_then(|x| x.as_str()).map(|x| x.to_string()),
                    e,
                });
            }
        }
        Some(G { stmts })
    }
}
