//! Entry points shared by the libFuzzer targets (fuzz/) and by the replay of their crash files: one byte
//! string -> the same decoder and the same oracle as the proptest parts of the property.

use crate::engine::Outcome;

pub fn outcome(prop: &str, data: &[u8]) -> Option<Outcome> {
    Some(match prop {
        "C02" => crate::props::c02::fuzz_case(data),
        "C03" => crate::props::c03::fuzz_case(data),
        "C04" => crate::props::c04::fuzz_case(data),
        "C05" => crate::props::c05::fuzz_case(data),
        "C06" => crate::props::c06::fuzz_case(data),
        _ => return None,
    })
}

/// Some(message) = the oracle rejects this input
pub fn case(prop: &str, data: &[u8]) -> Option<String> {
    match outcome(prop, data)? {
        Outcome::Fail(f) => Some(f.msg),
        _ => None,
    }
}
