//! Reference semantics of a grammar for a target shell: a labelled regular language (DESIGN.md 2.4),
//! built from the documented meaning of the syntax.

use crate::ast::*;
use crate::automata::*;
use std::collections::{BTreeMap, BTreeSet};

#[derive(Clone, Debug, PartialEq, Eq, PartialOrd, Ord, Hash)]
pub enum Sym {
    Lit { text: String, descr: Option<String>, level: usize },
    Cmd { text: String, level: usize, compadd: bool },
    Word { canon: String, level: usize },
    Any,
}

impl Sym {
    pub fn level(&self) -> Option<usize> {
        match self {
            Sym::Lit { level, .. } | Sym::Cmd { level, .. } | Sym::Word { level, .. } => Some(*level),
            Sym::Any => None,
        }
    }
    pub fn short(&self) -> String {
        match self {
            Sym::Lit { text, descr, level } => match descr {
                Some(d) => format!("{text} {d:?}@{level}"),
                None => format!("{text}@{level}"),
            },
            Sym::Cmd { text, level, compadd } => format!("{{{{{{ {text} }}}}}}{}@{level}", if *compadd { "compadd" } else { "" }),
            Sym::Word { canon, level } => format!("WORD[{canon}]@{level}"),
            Sym::Any => "*".to_string(),
        }
    }
}

pub type Ldfa = Pdfa<Sym>;

/// marker text used for the built-in file / directory completion commands
pub fn builtin_marker(name: &str) -> String {
    format!("<builtin:{name}>")
}

/// Recognise a built-in command by the shell's documented primitive (README "Filename Completion").
pub fn classify_builtin(shell: &str, cmd: &str) -> Option<&'static str> {
    let c = cmd.trim();
    match shell {
        "bash" => {
            if c.contains("compgen -A file") {
                Some("PATH")
            } else if c.contains("compgen -A directory") {
                Some("DIRECTORY")
            } else {
                None
            }
        }
        "fish" => {
            if c.contains("__fish_complete_path") {
                Some("PATH")
            } else if c.contains("__fish_complete_directories") {
                Some("DIRECTORY")
            } else {
                None
            }
        }
        "zsh" => {
            if c.starts_with("_path_files") && c.contains("-/") {
                Some("DIRECTORY")
            } else if c.starts_with("_path_files") {
                Some("PATH")
            } else {
                None
            }
        }
        "pwsh" => {
            if c.contains("Get-ChildItem") && c.contains("-Directory") {
                Some("DIRECTORY")
            } else if c.contains("Get-ChildItem") {
                Some("PATH")
            } else {
                None
            }
        }
        _ => None,
    }
}

/// expression after description distribution and nonterminal resolution
#[derive(Clone, Debug, PartialEq, Eq)]
pub enum X {
    Lit { text: String, descr: Option<String> },
    Cmd { text: String, compadd: bool },
    Any,
    Seq(Vec<X>),
    Alt(Vec<X>),
    Fb(Vec<X>),
    Opt(Box<X>),
    Many(Box<X>),
    Word(Vec<X>),
}

/// "first literal of the group, of each alternative, spent once in a sequence"
pub fn distribute(e: &E, pending: &mut Option<String>) -> E {
    match e {
        E::Lit { text, descr: None } if pending.is_some() => E::Lit { text: text.clone(), descr: pending.take() },
        E::Lit { .. } | E::Nt(_) | E::Cmd(_) => e.clone(),
        E::Seq(v) => E::Seq(v.iter().map(|c| distribute(c, pending)).collect()),
        E::Word(v) => E::Word(v.iter().map(|c| distribute(c, pending)).collect()),
        E::Fb(v) => E::Fb(v.iter().map(|c| distribute(c, pending)).collect()),
        E::Alt(v) => E::Alt(v.iter().map(|c| distribute(c, &mut pending.clone())).collect()),
        E::Opt(x) => E::Opt(Box::new(distribute(x, pending))),
        E::Many(x) => E::Many(Box::new(distribute(x, pending))),
        E::Descr(x, d) => distribute(x, &mut Some(d.clone())),
    }
}

#[derive(Debug, Clone, PartialEq, Eq)]
pub enum ModelError {
    Cycle,
    TooBig,
    NoCall,
}

pub struct Resolver<'a> {
    pub shell: &'a str,
    pub plain: BTreeMap<String, E>,
    pub spec: BTreeMap<String, String>,
    pub budget: usize,
    /// names used (resolved) from the call variants, and names found undefined
    pub used: BTreeSet<String>,
    pub undefined: BTreeSet<String>,
}

impl<'a> Resolver<'a> {
    pub fn new(g: &G, shell: &'a str) -> Self {
        let mut plain = BTreeMap::new();
        let mut spec = BTreeMap::new();
        for (name, sh, e) in g.defs() {
            match sh {
                None => {
                    plain.entry(name.clone()).or_insert_with(|| distribute(e, &mut None));
                }
                Some(s) if s == shell => {
                    if let E::Cmd(c) = e {
                        spec.entry(name.clone()).or_insert_with(|| c.clone());
                    }
                }
                _ => {}
            }
        }
        Resolver { shell, plain, spec, budget: 20000, used: BTreeSet::new(), undefined: BTreeSet::new() }
    }

    pub fn resolve(&mut self, e: &E, stack: &mut Vec<String>) -> Result<X, ModelError> {
        if self.budget == 0 {
            return Err(ModelError::TooBig);
        }
        self.budget -= 1;
        Ok(match e {
            E::Lit { text, descr } => X::Lit { text: text.clone(), descr: descr.clone() },
            E::Cmd(c) => X::Cmd { text: c.clone(), compadd: false },
            E::Nt(n) => {
                self.used.insert(n.clone());
                if let Some(c) = self.spec.get(n) {
                    X::Cmd { text: c.clone(), compadd: self.shell == "zsh" }
                } else if let Some(body) = self.plain.get(n).cloned() {
                    if stack.contains(n) {
                        return Err(ModelError::Cycle);
                    }
                    stack.push(n.clone());
                    let r = self.resolve(&body, stack)?;
                    stack.pop();
                    r
                } else if n == "PATH" || n == "DIRECTORY" {
                    X::Cmd { text: builtin_marker(n), compadd: self.shell == "zsh" }
                } else {
                    self.undefined.insert(n.clone());
                    X::Any
                }
            }
            E::Seq(v) => X::Seq(v.iter().map(|c| self.resolve(c, stack)).collect::<Result<_, _>>()?),
            E::Alt(v) => X::Alt(v.iter().map(|c| self.resolve(c, stack)).collect::<Result<_, _>>()?),
            E::Fb(v) => X::Fb(v.iter().map(|c| self.resolve(c, stack)).collect::<Result<_, _>>()?),
            E::Word(v) => X::Word(v.iter().map(|c| self.resolve(c, stack)).collect::<Result<_, _>>()?),
            E::Opt(x) => X::Opt(Box::new(self.resolve(x, stack)?)),
            E::Many(x) => X::Many(Box::new(self.resolve(x, stack)?)),
            E::Descr(..) => unreachable!("descriptions are distributed before resolution"),
        })
    }
}

/// the single expression a grammar denotes for `shell`
pub fn elaborate(g: &G, shell: &str) -> Result<X, ModelError> {
    let calls: Vec<E> = g.calls().map(|(_, e)| distribute(e, &mut None)).collect();
    if calls.is_empty() {
        return Err(ModelError::NoCall);
    }
    let mut r = Resolver::new(g, shell);
    let mut xs = vec![];
    for c in &calls {
        xs.push(r.resolve(c, &mut vec![])?);
    }
    Ok(if xs.len() == 1 { xs.pop().unwrap() } else { X::Alt(xs) })
}

pub struct Built {
    pub dfa: Ldfa,
    /// canonical string -> within-word automaton (minimised)
    pub words: BTreeMap<String, Ldfa>,
}

struct Builder {
    nfa: Nfa<Sym>,
    words: BTreeMap<String, Ldfa>,
}

impl Builder {
    /// returns (entry, exit)
    fn build(&mut self, x: &X, level: usize, in_word: bool) -> (usize, usize) {
        match x {
            X::Lit { text, descr } => {
                let a = self.nfa.add_state();
                let b = self.nfa.add_state();
                self.nfa.add_edge(a, Sym::Lit { text: text.clone(), descr: descr.clone(), level }, b);
                (a, b)
            }
            X::Cmd { text, compadd } => {
                let a = self.nfa.add_state();
                let b = self.nfa.add_state();
                self.nfa.add_edge(a, Sym::Cmd { text: text.clone(), level, compadd: *compadd }, b);
                (a, b)
            }
            X::Any => {
                let a = self.nfa.add_state();
                let b = self.nfa.add_state();
                self.nfa.add_edge(a, Sym::Any, b);
                (a, b)
            }
            X::Seq(v) => self.concat(v, level, in_word),
            X::Word(v) => {
                if in_word {
                    self.concat(v, level, true)
                } else {
                    let mut sub = Builder { nfa: Nfa::new(), words: BTreeMap::new() };
                    let (s, t) = sub.concat(v, level, true);
                    sub.nfa.start = s;
                    sub.nfa.accept.insert(t);
                    let d = determinize_merging_readings(&sub.nfa).minimize();
                    let canon = d.canon();
                    self.words.insert(canon.clone(), d);
                    let a = self.nfa.add_state();
                    let b = self.nfa.add_state();
                    self.nfa.add_edge(a, Sym::Word { canon, level }, b);
                    (a, b)
                }
            }
            X::Alt(v) => {
                let a = self.nfa.add_state();
                let b = self.nfa.add_state();
                for c in v {
                    let (s, t) = self.build(c, level, in_word);
                    self.nfa.add_eps(a, s);
                    self.nfa.add_eps(t, b);
                }
                (a, b)
            }
            X::Fb(v) => {
                let a = self.nfa.add_state();
                let b = self.nfa.add_state();
                for (i, c) in v.iter().enumerate() {
                    let (s, t) = self.build(c, i, in_word);
                    self.nfa.add_eps(a, s);
                    self.nfa.add_eps(t, b);
                }
                (a, b)
            }
            X::Opt(c) => {
                let a = self.nfa.add_state();
                let b = self.nfa.add_state();
                let (s, t) = self.build(c, level, in_word);
                self.nfa.add_eps(a, s);
                self.nfa.add_eps(t, b);
                self.nfa.add_eps(a, b);
                (a, b)
            }
            X::Many(c) => {
                let a = self.nfa.add_state();
                let b = self.nfa.add_state();
                let (s, t) = self.build(c, level, in_word);
                self.nfa.add_eps(a, s);
                self.nfa.add_eps(t, b);
                self.nfa.add_eps(t, s);
                (a, b)
            }
        }
    }

    fn concat(&mut self, v: &[X], level: usize, in_word: bool) -> (usize, usize) {
        let a = self.nfa.add_state();
        let mut cur = a;
        for c in v {
            let (s, t) = self.build(c, level, in_word);
            self.nfa.add_eps(cur, s);
            cur = t;
        }
        (a, cur)
    }
}

/// what a typed word is compared with: items with the same key accept exactly the same words
fn reading_key(s: &Sym) -> (u8, String) {
    match s {
        Sym::Lit { text, .. } => (0, text.clone()),
        Sym::Cmd { text, .. } => (1, text.clone()),
        Sym::Word { canon, .. } => (2, canon.clone()),
        Sym::Any => (3, String::new()),
    }
}

/// Subset construction in which items that accept the same words count as one expectation (C09): from a
/// set of positions, every item present leads to the union of what follows any item with the same key.
/// Labels (description, level) stay on the edges: they say what is offered, not what is matched.
pub fn determinize_merging_readings(nfa: &Nfa<Sym>) -> Ldfa {
    use std::collections::HashMap;
    let closure = |set: &BTreeSet<usize>| -> BTreeSet<usize> {
        let mut out = set.clone();
        let mut stack: Vec<usize> = set.iter().copied().collect();
        while let Some(q) = stack.pop() {
            for &r in &nfa.eps[q] {
                if out.insert(r) {
                    stack.push(r);
                }
            }
        }
        out
    };
    let start = closure(&BTreeSet::from([nfa.start]));
    let mut ids: HashMap<BTreeSet<usize>, usize> = HashMap::new();
    let mut sets = vec![start.clone()];
    ids.insert(start, 0);
    let mut trans: Vec<BTreeMap<Sym, usize>> = vec![];
    let mut accept = vec![];
    let mut i = 0;
    while i < sets.len() {
        let cur = sets[i].clone();
        accept.push(cur.iter().any(|q| nfa.accept.contains(q)));
        let mut by_key: BTreeMap<(u8, String), (BTreeSet<Sym>, BTreeSet<usize>)> = BTreeMap::new();
        for &q in &cur {
            for (s, r) in &nfa.trans[q] {
                let e = by_key.entry(reading_key(s)).or_default();
                e.0.insert(s.clone());
                e.1.insert(*r);
            }
        }
        let mut row = BTreeMap::new();
        for (_, (syms, tgt)) in by_key {
            let c = closure(&tgt);
            let id = match ids.get(&c) {
                Some(id) => *id,
                None => {
                    let id = sets.len();
                    ids.insert(c.clone(), id);
                    sets.push(c);
                    id
                }
            };
            for s in syms {
                row.insert(s, id);
            }
        }
        trans.push(row);
        i += 1;
    }
    Pdfa { start: 0, accept, trans }
}

/// ⟦G⟧_S as a minimal labelled DFA (plus the within-word automata it refers to)
pub fn build(x: &X) -> Built {
    let mut b = Builder { nfa: Nfa::new(), words: BTreeMap::new() };
    let (s, t) = b.build(x, 0, false);
    b.nfa.start = s;
    b.nfa.accept.insert(t);
    let dfa = determinize_merging_readings(&b.nfa).minimize();
    Built { dfa, words: b.words }
}

pub fn denote(g: &G, shell: &str) -> Result<Built, ModelError> {
    let x = elaborate(g, shell)?;
    Ok(build(&x))
}

/// erase labels (descriptions, levels, compadd) — "as sets of words" (C09)
pub fn erase_labels(d: &Ldfa) -> Ldfa {
    let mut nfa: Nfa<Sym> = Nfa::new();
    for _ in 0..d.n() {
        nfa.add_state();
    }
    nfa.start = d.start;
    for q in 0..d.n() {
        if d.accept[q] {
            nfa.accept.insert(q);
        }
        for (s, r) in &d.trans[q] {
            let s2 = match s {
                Sym::Lit { text, .. } => Sym::Lit { text: text.clone(), descr: None, level: 0 },
                Sym::Cmd { text, .. } => Sym::Cmd { text: text.clone(), level: 0, compadd: false },
                Sym::Word { canon, .. } => Sym::Word { canon: canon.clone(), level: 0 },
                Sym::Any => Sym::Any,
            };
            nfa.add_edge(q, s2, *r);
        }
    }
    nfa.determinize().minimize()
}
