//! Reader for the subset of the Graphviz DOT language that can occur in `--dfa` / `--regex` dumps
//! (DESIGN.md 2.7).  Quoted strings are lexed like graphviz's own scanner (lib/cgraph/scan.l): inside quotes
//! `\"` is a quote, `\\` is consumed as a pair (and kept for the label escapes), backslash-newline is a
//! continuation, everything else is verbatim.

use std::collections::BTreeMap;

#[derive(Clone, Debug, PartialEq)]
enum Tok {
    Id(String),
    /// quoted string, scanner-level escapes (`\"`, continuation) resolved, `\\` pairs kept
    Str(String),
    LBrace,
    RBrace,
    LBracket,
    RBracket,
    Eq,
    Semi,
    Comma,
    Arrow,
}

fn lex(src: &str) -> Result<Vec<Tok>, String> {
    let b: Vec<char> = src.chars().collect();
    let mut i = 0;
    let mut out = vec![];
    while i < b.len() {
        let c = b[i];
        if c.is_whitespace() {
            i += 1;
            continue;
        }
        if c == '/' && i + 1 < b.len() && b[i + 1] == '/' {
            while i < b.len() && b[i] != '\n' {
                i += 1;
            }
            continue;
        }
        if c == '/' && i + 1 < b.len() && b[i + 1] == '*' {
            i += 2;
            while i + 1 < b.len() && !(b[i] == '*' && b[i + 1] == '/') {
                i += 1;
            }
            i += 2;
            continue;
        }
        if c == '#' && (i == 0 || b[i - 1] == '\n') {
            while i < b.len() && b[i] != '\n' {
                i += 1;
            }
            continue;
        }
        match c {
            '{' => {
                out.push(Tok::LBrace);
                i += 1;
            }
            '}' => {
                out.push(Tok::RBrace);
                i += 1;
            }
            '[' => {
                out.push(Tok::LBracket);
                i += 1;
            }
            ']' => {
                out.push(Tok::RBracket);
                i += 1;
            }
            '=' => {
                out.push(Tok::Eq);
                i += 1;
            }
            ';' => {
                out.push(Tok::Semi);
                i += 1;
            }
            ',' => {
                out.push(Tok::Comma);
                i += 1;
            }
            '-' if i + 1 < b.len() && b[i + 1] == '>' => {
                out.push(Tok::Arrow);
                i += 2;
            }
            '"' => {
                i += 1;
                let mut s = String::new();
                let mut closed = false;
                while i < b.len() {
                    let d = b[i];
                    if d == '\\' && i + 1 < b.len() {
                        let e = b[i + 1];
                        if e == '"' {
                            s.push('"');
                            i += 2;
                            continue;
                        }
                        if e == '\\' {
                            s.push_str("\\\\");
                            i += 2;
                            continue;
                        }
                        if e == '\n' {
                            i += 2;
                            continue;
                        }
                        s.push('\\');
                        i += 1;
                        continue;
                    }
                    if d == '"' {
                        closed = true;
                        i += 1;
                        break;
                    }
                    s.push(d);
                    i += 1;
                }
                if !closed {
                    return Err("unterminated quoted string".into());
                }
                out.push(Tok::Str(s));
            }
            _ if c.is_alphanumeric() || c == '_' || c == '.' || (c as u32) >= 128 => {
                let st = i;
                while i < b.len() && (b[i].is_alphanumeric() || b[i] == '_' || b[i] == '.' || (b[i] as u32) >= 128) {
                    i += 1;
                }
                out.push(Tok::Id(b[st..i].iter().collect()));
            }
            '-' if i + 1 < b.len() && (b[i + 1].is_ascii_digit() || b[i + 1] == '.') => {
                let st = i;
                i += 1;
                while i < b.len() && (b[i].is_ascii_digit() || b[i] == '.') {
                    i += 1;
                }
                out.push(Tok::Id(b[st..i].iter().collect()));
            }
            other => {
                let line = b[..i].iter().filter(|x| **x == '\n').count() + 1;
                return Err(format!("unexpected character {other:?} on line {line}"));
            }
        }
    }
    Ok(out)
}

#[derive(Clone, Debug, Default)]
pub struct Node {
    pub id: String,
    pub attrs: BTreeMap<String, String>,
    /// path of enclosing subgraph names ("" = top level)
    pub scope: Vec<String>,
    pub declared: bool,
}

#[derive(Clone, Debug)]
pub struct Edge {
    pub from: String,
    pub to: String,
    pub attrs: BTreeMap<String, String>,
    pub scope: Vec<String>,
}

#[derive(Clone, Debug, Default)]
pub struct Graph {
    pub name: String,
    pub nodes: BTreeMap<String, Node>,
    pub node_order: Vec<String>,
    pub edges: Vec<Edge>,
    /// subgraph path -> its own graph attributes (label=...), in order of appearance
    pub subgraphs: Vec<(Vec<String>, BTreeMap<String, String>)>,
}

struct P {
    t: Vec<Tok>,
    i: usize,
    g: Graph,
}

impl P {
    fn peek(&self) -> Option<&Tok> {
        self.t.get(self.i)
    }
    fn next(&mut self) -> Option<Tok> {
        let x = self.t.get(self.i).cloned();
        self.i += 1;
        x
    }
    fn id(&mut self) -> Result<String, String> {
        match self.next() {
            Some(Tok::Id(s)) | Some(Tok::Str(s)) => Ok(s),
            other => Err(format!("expected an ID, found {:?} (token {})", other, self.i)),
        }
    }
    fn attr_list(&mut self) -> Result<BTreeMap<String, String>, String> {
        let mut m = BTreeMap::new();
        while self.peek() == Some(&Tok::LBracket) {
            self.next();
            loop {
                match self.peek() {
                    Some(Tok::RBracket) => {
                        self.next();
                        break;
                    }
                    Some(Tok::Semi) | Some(Tok::Comma) => {
                        self.next();
                    }
                    Some(Tok::Id(_)) | Some(Tok::Str(_)) => {
                        let k = self.id()?;
                        if self.peek() == Some(&Tok::Eq) {
                            self.next();
                            let v = self.id()?;
                            m.insert(k, v);
                        } else {
                            m.insert(k, "true".into());
                        }
                    }
                    other => return Err(format!("unexpected {:?} inside an attribute list (token {})", other, self.i)),
                }
            }
        }
        Ok(m)
    }
    fn touch_node(&mut self, id: &str, scope: &[String], defaults: &BTreeMap<String, String>, declared: bool, attrs: BTreeMap<String, String>) {
        if !self.g.nodes.contains_key(id) {
            // defaults apply when a node is created, not when it is mentioned again
            let mut a = defaults.clone();
            a.extend(attrs);
            self.g.nodes.insert(id.to_string(), Node { id: id.to_string(), attrs: a, scope: scope.to_vec(), declared });
            self.g.node_order.push(id.to_string());
        } else {
            let n = self.g.nodes.get_mut(id).unwrap();
            n.attrs.extend(attrs);
            if declared && !n.declared {
                n.declared = true;
                n.scope = scope.to_vec();
            }
        }
    }
    fn stmt_list(&mut self, scope: &[String], mut node_defaults: BTreeMap<String, String>, sub_attrs: &mut BTreeMap<String, String>) -> Result<(), String> {
        loop {
            match self.peek().cloned() {
                None => return Err("unexpected end of file inside a graph body".into()),
                Some(Tok::RBrace) => {
                    self.next();
                    return Ok(());
                }
                Some(Tok::Semi) => {
                    self.next();
                }
                Some(Tok::LBrace) => {
                    self.next();
                    let mut sa = BTreeMap::new();
                    self.stmt_list(scope, node_defaults.clone(), &mut sa)?;
                }
                Some(Tok::Id(w)) if w == "subgraph" => {
                    self.next();
                    let name = match self.peek() {
                        Some(Tok::Id(_)) | Some(Tok::Str(_)) => self.id()?,
                        _ => String::new(),
                    };
                    if self.next() != Some(Tok::LBrace) {
                        return Err("expected '{' after subgraph".into());
                    }
                    let mut sc = scope.to_vec();
                    sc.push(name);
                    let mut sa = BTreeMap::new();
                    let idx = self.g.subgraphs.len();
                    self.g.subgraphs.push((sc.clone(), BTreeMap::new()));
                    self.stmt_list(&sc, node_defaults.clone(), &mut sa)?;
                    self.g.subgraphs[idx].1 = sa;
                }
                Some(Tok::Id(w)) if (w == "node" || w == "edge" || w == "graph") && self.t.get(self.i + 1) == Some(&Tok::LBracket) => {
                    self.next();
                    let a = self.attr_list()?;
                    if w == "node" {
                        node_defaults.extend(a);
                    }
                }
                Some(Tok::Id(_)) | Some(Tok::Str(_)) => {
                    let first = self.id()?;
                    match self.peek() {
                        Some(Tok::Eq) => {
                            self.next();
                            let v = self.id()?;
                            sub_attrs.insert(first, v);
                        }
                        Some(Tok::Arrow) => {
                            let mut chain = vec![first];
                            while self.peek() == Some(&Tok::Arrow) {
                                self.next();
                                chain.push(self.id()?);
                            }
                            let a = self.attr_list()?;
                            for n in &chain {
                                self.touch_node(n, scope, &node_defaults, false, BTreeMap::new());
                            }
                            for w in chain.windows(2) {
                                self.g.edges.push(Edge { from: w[0].clone(), to: w[1].clone(), attrs: a.clone(), scope: scope.to_vec() });
                            }
                        }
                        _ => {
                            let a = self.attr_list()?;
                            self.touch_node(&first, scope, &node_defaults, true, a);
                        }
                    }
                }
                Some(other) => return Err(format!("unexpected token {:?} (token {})", other, self.i)),
            }
        }
    }
}

pub fn parse(src: &str) -> Result<Graph, String> {
    let t = lex(src)?;
    let mut p = P { t, i: 0, g: Graph::default() };
    match p.next() {
        Some(Tok::Id(w)) if w == "digraph" => {}
        other => return Err(format!("expected 'digraph', found {:?}", other)),
    }
    if let Some(Tok::Id(_)) | Some(Tok::Str(_)) = p.peek() {
        p.g.name = p.id()?;
    }
    if p.next() != Some(Tok::LBrace) {
        return Err("expected '{'".into());
    }
    let mut top = BTreeMap::new();
    p.stmt_list(&[], BTreeMap::new(), &mut top)?;
    if p.i < p.t.len() {
        return Err(format!("text after the closing brace of the digraph: {:?}", &p.t[p.i..(p.i + 3).min(p.t.len())]));
    }
    Ok(p.g)
}

/// label escapes (escString): `\\` -> backslash, `\n` `\l` `\r` -> line break, other `\c` -> c
pub fn decode_label(s: &str) -> String {
    let mut out = String::new();
    let mut it = s.chars().peekable();
    while let Some(c) = it.next() {
        if c == '\\' {
            match it.next() {
                Some('n') | Some('l') | Some('r') => out.push('\n'),
                Some(x) => out.push(x),
                None => out.push('\\'),
            }
        } else {
            out.push(c);
        }
    }
    out
}
